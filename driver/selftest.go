package main

import (
	"bytes"
	"crypto/sha256"
	"fmt"
	"os"
	"os/exec"
	"path/filepath"
	"sort"
	"strconv"
	"strings"
	"sync"
	"time"
)

// selftest transparency: the repository's own test suite must pass on the instrumented copy (hooks
//   detached), and for a sample of run seeds the event logs of the sequential worlds must be identical
//   between the instrumented build and a build against the plain (uninstrumented) tree.
// selftest determinism: every sampled run seed is executed in separate processes twice at each of
//   GOMAXPROCS 1, 4 and 16 (plain and -race builds) and the full event logs (plan, every op result,
//   every context switch, every fault, step counts, verdict) must be byte-identical.

var allProps = []string{"C01", "C02", "C03", "C04", "C05", "C06", "C07", "C08", "C09", "C10", "C11", "C12", "C13", "C14", "C15", "C16", "C17", "C18"}

func buildPlain() (string, error) {
	// a copy of the working tree with only the simrt package added (nothing rewritten)
	dst := filepath.Join(scratchRoot, "plain")
	if _, err := copyTree(repoDir(), dst, false); err != nil {
		return "", err
	}
	vd := verifDir()
	if err := copyFile(filepath.Join(vd, "simrt", "simrt.go"), filepath.Join(dst, "simrt", "simrt.go")); err != nil {
		return "", err
	}
	if err := os.WriteFile(filepath.Join(dst, "simrt", "sites.go"), []byte("package simrt\n\nconst NSites = 0\n"), 0o644); err != nil {
		return "", err
	}
	mod := fmt.Sprintf("module godsimworker\n\ngo 1.21\n\nrequire %s v2.0.0-00010101000000-000000000000\n\nreplace %s => %s\n", modPath, modPath, dst)
	modfile := filepath.Join(scratchRoot, "plain.mod")
	if err := os.WriteFile(modfile, []byte(mod), 0o644); err != nil {
		return "", err
	}
	bin := filepath.Join(scratchRoot, "worker-plain")
	cmd := exec.Command("go", "build", "-modfile="+modfile, "-trimpath", "-o", bin, ".")
	cmd.Dir = filepath.Join(vd, "worker")
	cmd.Env = goEnv()
	if out, err := cmd.CombinedOutput(); err != nil {
		return "", fmt.Errorf("go build plain worker: %v\n%s", err, out)
	}
	return bin, nil
}

func traceRun(bin, prop string, idx int, gomaxprocs int, stripSteps bool) (string, error) {
	cmd := exec.Command(bin, "-prop", prop, "-seed", "1", "-trace", strconv.Itoa(idx), "-tier", "quick")
	cmd.Env = append(os.Environ(), "GORACE=halt_on_error=0", "GOMAXPROCS="+strconv.Itoa(gomaxprocs))
	var out, eb bytes.Buffer
	cmd.Stdout, cmd.Stderr = &out, &eb
	done := make(chan error, 1)
	if err := cmd.Start(); err != nil {
		return "", err
	}
	go func() { done <- cmd.Wait() }()
	select {
	case err := <-done:
		if err != nil {
			return "", fmt.Errorf("%s run %d: %v\n%s", prop, idx, err, tail(eb.String(), 20))
		}
	case <-time.After(120 * time.Second):
		cmd.Process.Kill()
		return "", fmt.Errorf("%s run %d: timeout", prop, idx)
	}
	s := out.String()
	if stripSteps {
		var keep []string
		for _, l := range strings.Split(s, "\n") {
			if strings.HasPrefix(l, "steps=") {
				continue
			}
			keep = append(keep, l)
		}
		s = strings.Join(keep, "\n")
	}
	return s, nil
}

func selftest(args []string) int {
	which := "all"
	seeds := 32
	for i := 0; i < len(args); i++ {
		switch args[i] {
		case "transparency", "determinism", "all":
			which = args[i]
		case "--seeds":
			if i+1 < len(args) {
				seeds, _ = strconv.Atoi(args[i+1])
				i++
			}
		}
	}
	defer cleanup()
	rc := 0
	if which == "transparency" || which == "all" {
		if r := selftestTransparency(seeds); r != 0 {
			rc = r
		}
		cleanup()
		cleanupOnce = sync.Once{}
	}
	if which == "determinism" || which == "all" {
		if r := selftestDeterminism(seeds); r != 0 {
			rc = r
		}
	}
	return rc
}

func selftestTransparency(seeds int) int {
	t0 := time.Now()
	bin, instr, err := build(false, true)
	if err != nil {
		return die2("%v", err)
	}
	// 1. the repository's own tests on the instrumented copy
	cmd := exec.Command("go", "test", "-vet=off", "-count=1", "-timeout", "10m", "./...")
	cmd.Dir = filepath.Join(scratchRoot, "repo")
	cmd.Env = goEnv()
	out, err := cmd.CombinedOutput()
	okPk, fail := 0, 0
	for _, l := range strings.Split(string(out), "\n") {
		if strings.HasPrefix(l, "ok ") {
			okPk++
		}
		if strings.HasPrefix(l, "FAIL") || strings.HasPrefix(l, "--- FAIL") {
			fail++
		}
	}
	if err != nil || fail > 0 {
		fmt.Println(tail(string(out), 40))
		return die2("transparency: the repository's own tests FAIL on the instrumented copy")
	}
	fmt.Printf("transparency: repository test suite passes on the instrumented copy (%d packages ok, %d yield sites, %d map-range sites)\n", okPk, len(instr.Sites), len(instr.MapSites))
	// 2. instrumented vs plain event logs of the sequential worlds
	plain, err := buildPlain()
	if err != nil {
		return die2("%v", err)
	}
	type job struct {
		prop string
		idx  int
	}
	var jobs []job
	for _, p := range allProps {
		if p == "C18" || p == "C07" {
			continue // C18 needs yield sites to schedule; C07's traces are the same worlds as C01/C02
		}
		for i := 0; i < seeds; i++ {
			jobs = append(jobs, job{p, i})
		}
	}
	var mu sync.Mutex
	var diffs []string
	var wg sync.WaitGroup
	sem := make(chan struct{}, 16)
	for _, j := range jobs {
		wg.Add(1)
		sem <- struct{}{}
		go func(j job) {
			defer wg.Done()
			defer func() { <-sem }()
			a, e1 := traceRun(bin, j.prop, j.idx, 2, true)
			b, e2 := traceRun(plain, j.prop, j.idx, 2, true)
			a, b = mapOrderFree(a), mapOrderFree(b)
			if e1 != nil || e2 != nil || a != b {
				mu.Lock()
				diffs = append(diffs, fmt.Sprintf("%s run %d (%v %v)", j.prop, j.idx, e1, e2))
				mu.Unlock()
			}
		}(j)
	}
	wg.Wait()
	if len(diffs) > 0 {
		sort.Strings(diffs)
		fmt.Println(strings.Join(diffs[:min(len(diffs), 20)], "\n"))
		return die2("transparency: %d of %d event logs differ between the instrumented and the plain build", len(diffs), len(jobs))
	}
	fmt.Printf("transparency: %d event logs (16 properties x %d run seeds) identical between instrumented and plain builds (%.0fs)\n", len(jobs), seeds, time.Since(t0).Seconds())
	return 0
}

func selftestDeterminism(seeds int) int {
	t0 := time.Now()
	rcAll := 0
	for _, race := range []bool{false, true} {
		bin, _, err := build(race, false)
		if err != nil {
			return die2("%v", err)
		}
		type job struct {
			prop string
			idx  int
		}
		var jobs []job
		for _, p := range allProps {
			if race && p != "C18" && p != "C01" && p != "C12" {
				continue // the -race build is what C18 uses; two more worlds as a cross-check
			}
			if !race && p == "C18" {
				// C18 without the detector still schedules deterministically: keep it
			}
			for i := 0; i < seeds; i++ {
				jobs = append(jobs, job{p, i})
			}
		}
		var mu sync.Mutex
		var diffs []string
		procs := 0
		var wg sync.WaitGroup
		sem := make(chan struct{}, 16)
		for _, j := range jobs {
			wg.Add(1)
			sem <- struct{}{}
			go func(j job) {
				defer wg.Done()
				defer func() { <-sem }()
				var ref [32]byte
				first := true
				for _, gmp := range []int{1, 4, 16} {
					for rep := 0; rep < 2; rep++ {
						out, err := traceRun(bin, j.prop, j.idx, gmp, false)
						h := sha256.Sum256([]byte(out))
						mu.Lock()
						procs++
						if err != nil {
							diffs = append(diffs, fmt.Sprintf("%s run %d: %v", j.prop, j.idx, err))
						} else if first {
							ref, first = h, false
						} else if h != ref {
							diffs = append(diffs, fmt.Sprintf("%s run %d differs at GOMAXPROCS=%d rep %d", j.prop, j.idx, gmp, rep))
						}
						mu.Unlock()
					}
				}
			}(j)
		}
		wg.Wait()
		if len(diffs) > 0 {
			sort.Strings(diffs)
			fmt.Println(strings.Join(diffs[:min(len(diffs), 20)], "\n"))
			rcAll = die2("determinism (race=%v): %d divergent event logs", race, len(diffs))
		} else {
			fmt.Printf("determinism (race=%v): %d run seeds x 2 executions x GOMAXPROCS{1,4,16} = %d processes, all event logs byte-identical\n", race, len(jobs), procs)
		}
		cleanup()
		cleanupOnce = sync.Once{}
	}
	fmt.Printf("determinism: done in %.0fs\n", time.Since(t0).Seconds())
	return rcAll
}

// mapOrderFree cuts an event log at the first load of a run whose outcome may legally depend on Go's
// map iteration order (which the plain build does not own): loads into bidirectional maps (several
// keys for one value: any one may win) and into containers with a coarsened comparator (several keys
// of one class: any one may win).
func mapOrderFree(log string) string {
	lines := strings.Split(log, "\n")
	if len(lines) == 0 {
		return log
	}
	plan := lines[0]
	coarse := strings.Contains(plan, `"kind":"hashbidimap"`) || strings.Contains(plan, `"kind":"treebidimap"`)
	for _, c := range []string{"div9", "mod5", "len", "fold"} {
		if strings.Contains(plan, `"cmp":"`+c+`"`) || strings.Contains(plan, `"vcmp":"`+c+`"`) {
			coarse = true
		}
	}
	if !coarse {
		return log
	}
	for i, l := range lines {
		if strings.HasPrefix(l, "op ") && (strings.Contains(l, " Load ") || strings.Contains(l, " FromJSON ") || strings.Contains(l, " Restart ")) {
			return strings.Join(lines[:i], "\n")
		}
	}
	return log
}
