package main

func selftest(args []string) int { return die2("selftest: not implemented yet") }
