package main

import (
	"bufio"
	"bytes"
	"encoding/json"
	"fmt"
	"os"
	"os/exec"
	"os/signal"
	"path/filepath"
	"runtime"
	"sort"
	"strconv"
	"strings"
	"sync"
	"syscall"
	"time"
)

func repoDir() string {
	if d := os.Getenv("VERIF_REPO"); d != "" {
		return d
	}
	return "/repo"
}

func verifDir() string {
	if d := os.Getenv("VERIF_DIR"); d != "" {
		return d
	}
	if exe, err := os.Executable(); err == nil {
		d := filepath.Dir(filepath.Dir(exe))
		if _, err := os.Stat(filepath.Join(d, "worker", "main.go")); err == nil {
			return d
		}
	}
	return "/verif"
}

func goEnv() []string {
	env := os.Environ()
	env = append(env, "GOFLAGS=-mod=mod", "GOPROXY=off", "GOSUMDB=off", "GOTOOLCHAIN=local", "CGO_ENABLED=1")
	return env
}

type propInfo struct {
	level     string
	race      bool
	quickS    float64
	thoroughS float64
	rule      string
}

var props = map[string]propInfo{
	"C01": {"exploration", false, 20, 480, "history of >= 8 mutating ops with >= 1 removal of a present key and peak size >= 3; distinct = distinct plan hash (configuration + op sequence)"},
	"C02": {"exploration", false, 20, 480, "history of >= 8 mutating ops with >= 1 removal and peak size >= 3 on a comparator-ordered container; distinct plan hash"},
	"C03": {"exploration", false, 20, 480, "history of >= 8 list ops with >= 1 shrinking op and peak size >= 3; distinct plan hash"},
	"C04": {"exploration", false, 20, 480, "history of >= 8 variadic Add/Remove/Clear with >= 1 shrinking op and peak size >= 3; distinct plan hash"},
	"C05": {"exploration", false, 20, 480, "history of >= 8 ops with >= 1 removal and peak size >= 3; distinct plan hash"},
	"C06": {"exploration", false, 20, 480, "history of >= 8 ops with >= 1 pop and peak size >= 3; distinct plan hash"},
	"C07": {"exploration", false, 20, 600, "history of >= 8 ops with >= 1 removal and peak size >= 3 under a counting comparator; distinct plan hash"},
	"C08": {"exploration", false, 20, 480, "iterator script with >= 1 direction reversal at a sentinel position; distinct plan hash"},
	"C09": {"exploration", false, 20, 480, "history with >= 1 removal (remove-then-reinsert is forced by the small key table); distinct plan hash"},
	"C10": {"exploration", false, 20, 480, "history of >= 8 ops with >= 1 removal and peak size >= 3 over a value table small enough to force collisions; distinct plan hash"},
	"C11": {"exploration", false, 20, 480, "history with >= 1 checkpoint+restart after a removal; distinct plan hash"},
	"C12": {"fault_enumeration", false, 25, 720, "history with >= 1 load whose bytes were damaged by a fault that fired on a non-empty live container; distinct plan hash"},
	"C13": {"exploration", false, 20, 480, "both operands non-empty when an algebra op is applied; distinct plan hash"},
	"C14": {"exploration", false, 20, 480, ">= 1 enumerable call whose callback depends on index/key on a non-empty container; distinct plan hash"},
	"C15": {"exploration", false, 20, 480, "history with >= 1 Clear followed by >= 3 operations compared in lock-step with a fresh instance; distinct plan hash"},
	"C16": {"exploration", false, 20, 480, ">= 1 scribble on a returned or passed slice of a non-empty container; distinct plan hash"},
	"C17": {"exploration", false, 20, 480, ">= 1 out-of-range or malformed argument; distinct plan hash"},
	"C18": {"exploration", true, 30, 900, ">= 2 concurrent readers with >= 1 context switch inside an operation; distinct plan hash"},
}

type knownFinding struct {
	Property  string `json:"property"`
	Signature string `json:"signature"`
	What      string `json:"what"`
	Commit    string `json:"commit,omitempty"`
}

type knownFile struct {
	Open  []knownFinding `json:"open"`
	Fixed []knownFinding `json:"fixed"`
}

var scratchRoot string
var cleanupOnce sync.Once

func cleanup() {
	cleanupOnce.Do(func() {
		if scratchRoot != "" && os.Getenv("VERIF_KEEP_SCRATCH") == "" {
			os.RemoveAll(scratchRoot)
		}
	})
}

func die2(format string, args ...any) int {
	fmt.Fprintf(os.Stderr, "godsim: INFRASTRUCTURE: "+format+"\n", args...)
	return 2
}

// build instruments a scratch copy of the repository's working tree and builds the worker.
// pruneBuildCache: every check builds the worker against a freshly instrumented copy; for an unchanged tree
// Go's build cache hits, but every *changed* tree adds a few hundred MB to it, and Go only trims entries after
// days. When the file system holding the cache runs low (< 8 GB free) the cache is dropped; the next build
// takes a minute longer.
func pruneBuildCache() {
	out, err := exec.Command("go", "env", "GOCACHE").Output()
	dir := strings.TrimSpace(string(out))
	if err != nil || dir == "" || dir == "off" {
		return
	}
	var st syscall.Statfs_t
	if syscall.Statfs(dir, &st) != nil {
		return
	}
	if free := st.Bavail * uint64(st.Bsize); free < 8<<30 {
		fmt.Fprintf(os.Stderr, "godsim: %d MB free on the file system of the Go build cache: running go clean -cache\n", free>>20)
		exec.Command("go", "clean", "-cache").Run()
	}
}

func build(race bool, withTests bool) (workerBin string, instr *InstrResult, err error) {
	base := os.Getenv("VERIF_SCRATCH")
	if base == "" {
		base = os.TempDir()
	}
	scratchRoot, err = os.MkdirTemp(base, "godsim-")
	if err != nil {
		return "", nil, err
	}
	pruneBuildCache()
	sig := make(chan os.Signal, 1)
	signal.Notify(sig, syscall.SIGINT, syscall.SIGTERM, syscall.SIGHUP)
	go func() { <-sig; cleanup(); os.Exit(2) }()
	vd := verifDir()
	repoCopy := filepath.Join(scratchRoot, "repo")
	InstrumentTags = nil
	if race {
		InstrumentTags = []string{"race"}
	}
	instr, err = Instrument(repoDir(), repoCopy, filepath.Join(vd, "simrt", "simrt.go"), withTests)
	if err != nil {
		return "", nil, fmt.Errorf("instrument: %v", err)
	}
	mod := fmt.Sprintf("module godsimworker\n\ngo 1.21\n\nrequire %s v2.0.0-00010101000000-000000000000\n\nreplace %s => %s\n", modPath, modPath, repoCopy)
	modfile := filepath.Join(scratchRoot, "worker.mod")
	if err := os.WriteFile(modfile, []byte(mod), 0o644); err != nil {
		return "", nil, err
	}
	workerBin = filepath.Join(scratchRoot, "worker")
	args := []string{"build", "-modfile=" + modfile, "-trimpath", "-o", workerBin}
	if race {
		args = append(args, "-race")
	}
	args = append(args, ".")
	cmd := exec.Command("go", args...)
	cmd.Dir = filepath.Join(vd, "worker")
	cmd.Env = goEnv()
	out, err := cmd.CombinedOutput()
	if err != nil {
		return "", nil, fmt.Errorf("go build worker: %v\n%s", err, out)
	}
	return workerBin, instr, nil
}

type workerResult struct {
	idx      int
	exitCode int
	stderr   string
	logPath  string
	agg      map[string]any
	events   []map[string]any
}

func runWorker(bin string, idx int, args []string, logPath string, extraEnv []string, timeout time.Duration) *workerResult {
	wr := &workerResult{idx: idx, logPath: logPath}
	cmd := exec.Command(bin, args...)
	var eb bytes.Buffer
	cmd.Stderr = &eb
	cmd.Stdout = &eb
	cmd.Env = append(os.Environ(), extraEnv...)
	if err := cmd.Start(); err != nil {
		wr.exitCode = -1
		wr.stderr = err.Error()
		return wr
	}
	done := make(chan error, 1)
	go func() { done <- cmd.Wait() }()
	select {
	case err := <-done:
		if err != nil {
			if ee, ok := err.(*exec.ExitError); ok {
				wr.exitCode = ee.ExitCode()
			} else {
				wr.exitCode = -1
			}
		}
	case <-time.After(timeout):
		cmd.Process.Kill()
		<-done
		wr.exitCode = -9
		eb.WriteString("\nWATCHDOG: worker killed after " + timeout.String())
	}
	wr.stderr = eb.String()
	if f, err := os.Open(logPath); err == nil {
		sc := bufio.NewScanner(f)
		sc.Buffer(make([]byte, 1<<20), 1<<30)
		for sc.Scan() {
			var m map[string]any
			if json.Unmarshal(sc.Bytes(), &m) == nil {
				if m["t"] == "done" {
					wr.agg = m
				} else {
					wr.events = append(wr.events, m)
				}
			}
		}
		f.Close()
	}
	return wr
}

func envFloat(name string, def float64) float64 {
	if v := os.Getenv(name); v != "" {
		if f, err := strconv.ParseFloat(v, 64); err == nil {
			return f
		}
	}
	return def
}

func loadKnown() knownFile {
	var kf knownFile
	path := filepath.Join(verifDir(), "known_findings.json")
	if p := os.Getenv("VERIF_KNOWN_FILE"); p != "" { // (for testing the mechanism itself)
		path = p
	}
	b, err := os.ReadFile(path)
	if err == nil {
		json.Unmarshal(b, &kf)
	}
	return kf
}

func check(id, tier string) int {
	info, ok := props[id]
	if !ok {
		return die2("unknown property %q", id)
	}
	defer cleanup()
	t0 := time.Now()
	seed := uint64(1)
	if v := os.Getenv("VERIF_SEED"); v != "" {
		if n, err := strconv.ParseUint(v, 10, 64); err == nil {
			seed = n
		} else if n, err := strconv.ParseInt(v, 10, 64); err == nil {
			seed = uint64(n)
		}
	}
	budget := info.quickS
	if tier == "thorough" {
		budget = info.thoroughS
	}
	budget = envFloat("VERIF_BUDGET_S", budget)
	nw := runtime.NumCPU()
	if v := os.Getenv("VERIF_WORKERS"); v != "" {
		if n, err := strconv.Atoi(v); err == nil && n > 0 {
			nw = n
		}
	}
	bin, instr, err := build(info.race, false)
	if err != nil {
		return die2("%v", err)
	}
	buildS := time.Since(t0).Seconds()
	kf := loadKnown()
	var knownSigs []string
	knownWhat := map[string]string{}
	for _, k := range kf.Open {
		if k.Property == id {
			knownSigs = append(knownSigs, k.Signature)
			knownWhat[k.Signature] = k.What
		}
	}
	replayDir := filepath.Join(verifDir(), "replays")
	os.MkdirAll(replayDir, 0o755)
	minBudget := 20.0
	if tier == "thorough" {
		minBudget = 60
	}
	results := make([]*workerResult, nw)
	var wg sync.WaitGroup
	for i := 0; i < nw; i++ {
		wg.Add(1)
		go func(i int) {
			defer wg.Done()
			logPath := filepath.Join(scratchRoot, fmt.Sprintf("w%02d.jsonl", i))
			args := []string{"-prop", id, "-tier", tier, "-seed", strconv.FormatUint(seed, 10), "-worker", strconv.Itoa(i), "-nworkers", strconv.Itoa(nw),
				"-budget", fmt.Sprint(budget), "-log", logPath, "-replaydir", replayDir, "-known", strings.Join(knownSigs, ","), "-minbudget", fmt.Sprint(minBudget), "-regress", filepath.Join(verifDir(), "regress"), "-racelog", filepath.Join(scratchRoot, fmt.Sprintf("race%02d", i))}
			env := []string{"GORACE=halt_on_error=0 log_path=" + filepath.Join(scratchRoot, fmt.Sprintf("race%02d", i)), "GOMAXPROCS=2"}
			results[i] = runWorker(bin, i, args, logPath, env, time.Duration((budget+minBudget*3+120)*float64(time.Second)))
		}(i)
	}
	wg.Wait()

	// ---- evaluate -------------------------------------------------------------------------------
	exit := 0
	violations := 0
	var lines []string
	seenSig := map[string]bool{}
	var unconfirmed []string
	confirm := func(path string) (int, string) {
		rl := filepath.Join(scratchRoot, fmt.Sprintf("race-replay-%d", time.Now().UnixNano()))
		cmd := exec.Command(bin, "-replay", path, "-racelog", rl)
		cmd.Env = append(os.Environ(), "GORACE=halt_on_error=0 log_path="+rl, "GOMAXPROCS=2")
		var ob, eb bytes.Buffer
		cmd.Stdout, cmd.Stderr = &ob, &eb
		err := cmd.Run()
		code := 0
		if ee, ok := err.(*exec.ExitError); ok {
			code = ee.ExitCode()
		} else if err != nil {
			code = -1
		}
		if cap, err := os.ReadFile(rl + ".c17.fd2"); err == nil && code == 2 {
			eb.Write(cap) // a C17 replay worker's own fd 2 (the Go runtime's last words)
		}
		return code, ob.String() + eb.String()
	}
	for _, wr := range results {
		for _, ev := range wr.events {
			path, _ := ev["replay"].(string)
			sig, _ := ev["signature"].(string)
			switch ev["t"] {
			case "known":
				if !seenSig[sig] {
					seenSig[sig] = true
					lines = append(lines, fmt.Sprintf("KNOWN-FINDING: property=%s %s (signature %s, replay %s)", id, knownWhat[sig], sig, path))
				}
			case "violation":
				if seenSig[sig] {
					os.Remove(path) // same finding as one already reported: keep one replay file per signature
					continue
				}
				seenSig[sig] = true
				code, out := confirm(path)
				if code != 1 {
					// not reported as a violation. If nothing else is confirmed in this check it ends as
					// infrastructure trouble (exit 2); a confirmed violation of another signature still counts.
					cleanupKeepLogs(wr)
					unconfirmed = append(unconfirmed, fmt.Sprintf("violation found by worker %d did not reproduce from %s in a fresh process (exit %d): not reported as a violation\n%s", wr.idx, path, code, tail(out, 6)))
					continue
				}
				vb, _ := json.Marshal(ev["violation"])
				lines = append(lines, fmt.Sprintf("VIOLATION property=%s replay=%s", id, path))
				lines = append(lines, "  "+string(vb))
				violations++
				exit = 1
			}
		}
		if wr.agg == nil {
			// the worker died: Go fatal error (attributed via the start marker) or harness trouble
			marker, _ := os.ReadFile(wr.logPath + ".cur")
			if cap, err := os.ReadFile(wr.logPath + ".fd2"); err == nil && len(cap) > 0 {
				wr.stderr += "\n[captured fd 2 of the worker]\n" + string(cap) // C17 workers redirect their stderr
			}
			if strings.Contains(wr.stderr, "HARNESS BUG") || !(strings.Contains(wr.stderr, "fatal error:") || strings.Contains(wr.stderr, "stack exceeds")) || wr.exitCode == -9 {
				fmt.Fprintln(os.Stderr, tail(wr.stderr, 60))
				return die2("worker %d died (exit %d) at %s", wr.idx, wr.exitCode, strings.TrimSpace(string(marker)))
			}
			// Go runtime fatal error inside a run: regenerate that run's plan and confirm in a fresh process
			var runIdx int
			var rs uint64
			fmt.Sscanf(strings.TrimSpace(string(marker)), "run=%d seed=%d", &runIdx, &rs)
			path := filepath.Join(replayDir, fmt.Sprintf("%s-%d.json", id, rs))
			dump := exec.Command(bin, "-prop", id, "-tier", tier, "-seed", strconv.FormatUint(seed, 10), "-dumpplan", strconv.Itoa(runIdx), "-out", path)
			if out, err := dump.CombinedOutput(); err != nil {
				return die2("worker %d died with a Go fatal error and its plan could not be regenerated: %v %s", wr.idx, err, out)
			}
			code, out := confirm(path)
			if code != 2 || !strings.Contains(out, "fatal error:") {
				fmt.Fprintln(os.Stderr, tail(wr.stderr, 40))
				return die2("worker %d died with a Go fatal error that did not reproduce from %s (exit %d)", wr.idx, path, code)
			}
			lines = append(lines, fmt.Sprintf("VIOLATION property=%s replay=%s", id, path))
			lines = append(lines, "  Go runtime fatal error (process killed): "+firstLine(out, "fatal error:"))
			violations++
			exit = 1
		}
	}
	if len(unconfirmed) > 0 && violations == 0 {
		fmt.Fprintln(os.Stderr, strings.Join(unconfirmed, "\n"))
		return die2("%d violation(s) found by workers did not reproduce in a fresh process and nothing else was confirmed: harness defect or a failure that depends on state outside the plan", len(unconfirmed))
	}
	for _, u := range unconfirmed {
		fmt.Fprintln(os.Stderr, "godsim: note: "+u)
	}
	wall := time.Since(t0).Seconds()
	if err := writeEvidence(id, tier, seed, info, results, instr, violations, wall, buildS, budget, nw); err != nil {
		return die2("evidence: %v", err)
	}
	for _, l := range lines {
		fmt.Println(l)
	}
	runs := 0
	for _, wr := range results {
		if wr.agg != nil {
			runs += int(num(wr.agg["runs"]))
		}
	}
	fmt.Printf("godsim: property=%s tier=%s seed=%d runs=%d workers=%d wall=%.1fs build=%.1fs violations=%d\n", id, tier, seed, runs, nw, wall, buildS, violations)
	return exit
}

func cleanupKeepLogs(wr *workerResult) {}

func firstLine(s, needle string) string {
	for _, l := range strings.Split(s, "\n") {
		if strings.Contains(l, needle) {
			return strings.TrimSpace(l)
		}
	}
	return ""
}

func tail(s string, n int) string {
	ls := strings.Split(s, "\n")
	if len(ls) > n {
		ls = ls[len(ls)-n:]
	}
	return strings.Join(ls, "\n")
}

func num(v any) float64 {
	f, _ := v.(float64)
	return f
}

func replayCmd(path string) int {
	b, err := os.ReadFile(path)
	if err != nil {
		return die2("%v", err)
	}
	var p struct {
		Property string `json:"property"`
	}
	if err := json.Unmarshal(b, &p); err != nil {
		return die2("bad replay file: %v", err)
	}
	info, ok := props[p.Property]
	if !ok {
		return die2("replay file names unknown property %q", p.Property)
	}
	defer cleanup()
	bin, _, err := build(info.race, false)
	if err != nil {
		return die2("%v", err)
	}
	rl := filepath.Join(scratchRoot, "race-replay")
	cmd := exec.Command(bin, "-replay", path, "-racelog", rl)
	cmd.Env = append(os.Environ(), "GORACE=halt_on_error=0 log_path="+rl, "GOMAXPROCS=2")
	var ob, eb bytes.Buffer
	cmd.Stdout, cmd.Stderr = &ob, &eb
	err = cmd.Run()
	code := 0
	if ee, ok := err.(*exec.ExitError); ok {
		code = ee.ExitCode()
	} else if err != nil {
		return die2("%v", err)
	}
	if cap, err := os.ReadFile(rl + ".c17.fd2"); err == nil && code == 2 {
		eb.Write(cap)
	}
	fmt.Print(ob.String())
	switch {
	case code == 1 || code == 3:
		fmt.Printf("VIOLATION property=%s replay=%s\n", p.Property, path)
		return 1
	case code == 2 && strings.Contains(eb.String(), "fatal error:"):
		fmt.Println("  Go runtime fatal error: " + firstLine(eb.String(), "fatal error:"))
		fmt.Printf("VIOLATION property=%s replay=%s\n", p.Property, path)
		return 1
	case code == 0:
		fmt.Printf("replay of %s: no violation on the current tree\n", path)
		return 0
	}
	fmt.Fprint(os.Stderr, eb.String())
	return die2("replay worker exited with %d", code)
}

func dispatch(args []string) int {
	switch args[0] {
	case "check":
		if len(args) < 2 {
			return die2("usage: godsim check <id> [--tier quick|thorough]")
		}
		tier := os.Getenv("VERIF_TIER")
		for i := 2; i < len(args); i++ {
			if args[i] == "--tier" && i+1 < len(args) {
				tier = args[i+1]
			}
		}
		if tier != "thorough" {
			tier = "quick"
		}
		return check(args[1], tier)
	case "replay":
		if len(args) < 2 {
			return die2("usage: godsim replay <file>")
		}
		return replayCmd(args[1])
	case "selftest":
		return selftest(args[1:])
	}
	return die2("unknown command %q", args[0])
}

// ---- evidence ---------------------------------------------------------------------------------------

func writeEvidence(id, tier string, seed uint64, info propInfo, results []*workerResult, instr *InstrResult, violations int, wall, buildS, budget float64, nw int) error {
	runs, steps, ops, switches := 0.0, 0.0, 0.0, 0.0
	maxSize := 0.0
	faults, unj, probes, kinds, strats := map[string]float64{}, map[string]float64{}, map[string]float64{}, map[string]float64{}, map[string]float64{}
	nt, states, scheds := map[float64]bool{}, map[float64]bool{}, map[float64]bool{}
	var samples []any
	hits := make([]float64, len(instr.Sites)+1)
	addM := func(dst map[string]float64, v any) {
		if m, ok := v.(map[string]any); ok {
			for k, x := range m {
				dst[k] += num(x)
			}
		}
	}
	addS := func(dst map[float64]bool, v any) {
		if l, ok := v.([]any); ok {
			for _, x := range l {
				dst[num(x)] = true
			}
		}
	}
	searchWall := 0.0
	for _, wr := range results {
		a := wr.agg
		if a == nil {
			continue
		}
		runs += num(a["runs"])
		steps += num(a["steps"])
		ops += num(a["ops"])
		switches += num(a["switches"])
		if num(a["max_size"]) > maxSize {
			maxSize = num(a["max_size"])
		}
		if num(a["wall_s"]) > searchWall {
			searchWall = num(a["wall_s"])
		}
		addM(faults, a["faults"])
		addM(unj, a["unjudged"])
		addM(probes, a["probes"])
		addM(kinds, a["kinds"])
		addM(strats, a["strats"])
		addS(nt, a["nontrivial_hashes"])
		addS(states, a["state_hashes"])
		addS(scheds, a["sched_hashes"])
		if l, ok := a["samples"].([]any); ok && len(samples) < 3 {
			for _, s := range l {
				if len(samples) < 3 {
					samples = append(samples, s)
				}
			}
		}
		if l, ok := a["site_hits"].([]any); ok {
			for i, x := range l {
				if i < len(hits) {
					hits[i] += num(x)
				}
			}
		}
	}
	if len(samples) == 0 {
		samples = append(samples, "no non-trivial run completed in this invocation")
	}
	// reach: sites hit per anchored file
	anchors := anchorFiles(id)
	type fileReach struct {
		Hit, Total int
		NeverHit   []string
	}
	reach := map[string]*fileReach{}
	for _, s := range instr.Sites {
		if len(anchors) > 0 && !anchors[s.File] {
			continue
		}
		fr := reach[s.File]
		if fr == nil {
			fr = &fileReach{}
			reach[s.File] = fr
		}
		fr.Total++
		if hits[s.ID] > 0 {
			fr.Hit++
		} else if len(fr.NeverHit) < 40 {
			fr.NeverHit = append(fr.NeverHit, fmt.Sprintf("%s:%d(%s)", s.Func, s.Line, s.Kind))
		}
	}
	reachOut := map[string]any{}
	hitT, totT := 0, 0
	for f, fr := range reach {
		reachOut[f] = map[string]any{"hit": fr.Hit, "total": fr.Total, "never_hit": fr.NeverHit}
		hitT += fr.Hit
		totT += fr.Total
	}
	perHour := func(x float64) float64 {
		if searchWall <= 0 {
			return 0
		}
		return float64(int64(x / searchWall * 3600))
	}
	na := "n/a: the library has no network, clock, disk, allocation-failure or syscall surface (DESIGN.md section 1)"
	cov := map[string]any{
		"evaluations":                int(runs),
		"distinct_nontrivial":        len(nt),
		"rule":                       info.rule,
		"samples":                    samples,
		"simulated_runs_per_hour":    perHour(runs),
		"seeds_per_hour":             perHour(runs),
		"simulated_time_steps":       int64(steps),
		"simulated_time_unit":        "one yield site passed (every function entry, loop iteration and branch of the instrumented library)",
		"operations_executed":        int64(ops),
		"context_switches":           int64(switches),
		"distinct_interleavings":     len(scheds),
		"interleaving_measure":       "hash of the sequence of (task, yield index) context switches of a run; for the sequential history worlds the interleaving of client scripts is the history itself and is counted by the plan hash",
		"distinct_abstract_states":   len(states),
		"state_measure":              "hash of the reference model's observable state, sampled every 8th step (at most 64 per run)",
		"faults_fired":               faults,
		"fault_kinds_not_applicable": map[string]string{"network loss/dup/reorder/partition": na, "clock skew/jump": na, "disk error/full disk": na, "allocation/syscall failure": na},
		"unjudged":                   unj,
		"probes":                     probes,
		"kinds_explored":             kinds,
		"interleaving_strategies":    strats,
		"max_container_size":         int(maxSize),
		"sites":                      map[string]any{"hit": hitT, "total": totT, "per_anchor_file": reachOut},
		"workers":                    nw,
		"search_wall_s":              searchWall,
		"build_s":                    buildS,
		"budget_s":                   budget,
		"yield_sites_total":          len(instr.Sites),
		"map_range_sites_owned":      len(instr.MapSites),
		"components": map[string]any{
			"real": []string{"every package of the repository's working tree (go/ast-instrumented scratch copy: yield sites + map-order seam, semantics unchanged)", "encoding/json", "Go runtime", "race detector (C18 only)"},
			"stub": []string{"client scripts", "snapshot store (bytes between ToJSON and FromJSON)", "caller-side RWMutex schedule (C18)", "reference models"},
		},
	}
	ev := map[string]any{
		"property_id": id,
		"tier":        tier,
		"seed":        int64(seed),
		"level":       info.level,
		"coverage":    cov,
		"assumptions": []string{
			"a clean batch is evidence, not proof: seeded search samples histories, schedules and fault sequences",
			"the go/ast instrumentation (yield calls, map-range rewrite whose behaviours are a subset of what the Go spec allows) does not change library semantics; `godsim selftest transparency` runs the repository's own tests on the instrumented copy",
			"reference models and oracles in /verif/worker are correct readings of the property statement (DESIGN.md sections 4 and 7)",
			"Go toolchain, encoding/json and (C18) the race detector are trusted",
		},
		"wall_s":     wall,
		"violations": violations,
	}
	b, err := json.MarshalIndent(ev, "", " ")
	if err != nil {
		return err
	}
	dir := filepath.Join(verifDir(), "evidence")
	os.MkdirAll(dir, 0o755)
	return os.WriteFile(filepath.Join(dir, id+".json"), append(b, '\n'), 0o644)
}

// anchorFiles reads the property's anchor files from properties.jsonl.
func anchorFiles(id string) map[string]bool {
	out := map[string]bool{}
	f, err := os.Open(filepath.Join(verifDir(), "properties.jsonl"))
	if err != nil {
		return out
	}
	defer f.Close()
	sc := bufio.NewScanner(f)
	sc.Buffer(make([]byte, 1<<20), 1<<26)
	for sc.Scan() {
		var p struct {
			ID      string `json:"id"`
			Anchors struct {
				Files []string `json:"files"`
			} `json:"anchors"`
		}
		if json.Unmarshal(sc.Bytes(), &p) == nil && p.ID == id {
			for _, x := range p.Anchors.Files {
				out[x] = true
			}
		}
	}
	return out
}

func sortedKeysF(m map[string]float64) []string {
	ks := make([]string, 0, len(m))
	for k := range m {
		ks = append(ks, k)
	}
	sort.Strings(ks)
	return ks
}
