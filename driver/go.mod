module godsim/driver

go 1.21
