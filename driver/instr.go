package main

// Instrumenter: copies the working tree of the repository under test into a scratch directory and
// rewrites the copy (never /repo) with two passes:
//
//	Pass A  simrt.Yield(<site>) at the head of every function body, loop body, if/else block and
//	        case clause: preemption point, unit of simulated time, reach probe.
//	Pass B  every range over a map becomes a range over simrt.MapKeys(m): the iteration order
//	        (the one source of nondeterminism inside the library) is owned by the simulator.
//
// With no hook attached both are inert.

import (
	"bytes"
	"encoding/json"
	"fmt"
	"go/ast"
	gobuild "go/build"
	"go/format"
	"go/importer"
	"go/parser"
	"go/token"
	"go/types"
	"io"
	"os"
	"os/exec"
	"path/filepath"
	"sort"
	"strconv"
	"strings"
)

const modPath = "github.com/emirpasic/gods/v2"

type Site struct {
	ID   int    `json:"id"`
	File string `json:"file"`
	Line int    `json:"line"`
	Kind string `json:"kind"`
	Func string `json:"func"`
}

type InstrResult struct {
	Sites    []Site
	MapSites []Site
}

func copyFile(src, dst string) error {
	in, err := os.Open(src)
	if err != nil {
		return err
	}
	defer in.Close()
	if err := os.MkdirAll(filepath.Dir(dst), 0o755); err != nil {
		return err
	}
	out, err := os.Create(dst)
	if err != nil {
		return err
	}
	if _, err := io.Copy(out, in); err != nil {
		out.Close()
		return err
	}
	return out.Close()
}

// copyTree copies go.mod, go.sum and .go files (tests only when withTests) of the repo's working tree.
func copyTree(src, dst string, withTests bool) ([]string, error) {
	var dirs []string
	seen := map[string]bool{}
	err := filepath.Walk(src, func(p string, info os.FileInfo, err error) error {
		if err != nil {
			return err
		}
		rel, _ := filepath.Rel(src, p)
		if info.IsDir() {
			base := info.Name()
			if rel != "." && (strings.HasPrefix(base, ".") || base == "examples" || base == "simrt") {
				return filepath.SkipDir
			}
			if rel == "testutils" && !withTests {
				return filepath.SkipDir
			}
			return nil
		}
		if rel == "go.mod" || rel == "go.sum" {
			return copyFile(p, filepath.Join(dst, rel))
		}
		if !strings.HasSuffix(rel, ".go") {
			return nil
		}
		if strings.HasSuffix(rel, "_test.go") && !withTests {
			return nil
		}
		if err := copyFile(p, filepath.Join(dst, rel)); err != nil {
			return err
		}
		d := filepath.Dir(rel)
		if !strings.HasSuffix(rel, "_test.go") && !seen[d] && d != "testutils" {
			seen[d] = true
			dirs = append(dirs, d)
		}
		return nil
	})
	sort.Strings(dirs)
	return dirs, err
}

type instrumenter struct {
	fset  *token.FileSet
	sites []Site
	maps  []Site
	file  string
	fn    string
	info  *types.Info
	err   error
}

func (in *instrumenter) yieldStmt(pos token.Pos, kind string) ast.Stmt {
	id := len(in.sites)
	in.sites = append(in.sites, Site{ID: id, File: in.file, Line: in.fset.Position(pos).Line, Kind: kind, Func: in.fn})
	return &ast.ExprStmt{X: &ast.CallExpr{
		Fun:  &ast.SelectorExpr{X: ast.NewIdent("simrt"), Sel: ast.NewIdent("Yield")},
		Args: []ast.Expr{&ast.BasicLit{Kind: token.INT, Value: strconv.Itoa(id)}},
	}}
}

func (in *instrumenter) block(b *ast.BlockStmt, kind string) {
	if b == nil {
		return
	}
	b.List = append([]ast.Stmt{in.yieldStmt(b.Lbrace, kind)}, b.List...)
}

// rewriteMapRange turns `for k, v := range m { body }` (m of map type) into
//
//	{ simM := m; for _, k := range simrt.MapKeys(simM) { v, simOK := simM[k]; if !simOK { continue }; body } }
//
// Behaviours of the rewritten loop are a subset of what the Go spec allows for the original.
func (in *instrumenter) rewriteMapRange(rs *ast.RangeStmt) ast.Stmt {
	if in.info == nil {
		return nil
	}
	tv, ok := in.info.Types[rs.X]
	if !ok {
		return nil
	}
	if _, isMap := tv.Type.Underlying().(*types.Map); !isMap {
		return nil
	}
	pos := in.fset.Position(rs.For)
	in.maps = append(in.maps, Site{ID: len(in.maps), File: in.file, Line: pos.Line, Kind: "maprange", Func: in.fn})
	if rs.Tok == token.ASSIGN {
		// `for k, v = range m { body }` (existing variables or any assignable operands):
		//	{ simM := m; for _, simK := range simrt.MapKeys(simM) { simV, simOK := simM[simK]; if !simOK { continue }; k = simK; v = simV; body } }
		pre := []ast.Stmt{
			&ast.AssignStmt{Lhs: []ast.Expr{ast.NewIdent("simV"), ast.NewIdent("simOK")}, Tok: token.DEFINE,
				Rhs: []ast.Expr{&ast.IndexExpr{X: ast.NewIdent("simM"), Index: ast.NewIdent("simK")}}},
			&ast.IfStmt{Cond: &ast.UnaryExpr{Op: token.NOT, X: ast.NewIdent("simOK")},
				Body: &ast.BlockStmt{List: []ast.Stmt{&ast.BranchStmt{Tok: token.CONTINUE}}}},
			&ast.AssignStmt{Lhs: []ast.Expr{ast.NewIdent("_")}, Tok: token.ASSIGN, Rhs: []ast.Expr{ast.NewIdent("simV")}},
		}
		if rs.Key != nil {
			pre = append(pre, &ast.AssignStmt{Lhs: []ast.Expr{rs.Key}, Tok: token.ASSIGN, Rhs: []ast.Expr{ast.NewIdent("simK")}})
		}
		if rs.Value != nil {
			pre = append(pre, &ast.AssignStmt{Lhs: []ast.Expr{rs.Value}, Tok: token.ASSIGN, Rhs: []ast.Expr{ast.NewIdent("simV")}})
		}
		loop := &ast.RangeStmt{Key: ast.NewIdent("_"), Value: ast.NewIdent("simK"), Tok: token.DEFINE,
			X:    &ast.CallExpr{Fun: &ast.SelectorExpr{X: ast.NewIdent("simrt"), Sel: ast.NewIdent("MapKeys")}, Args: []ast.Expr{ast.NewIdent("simM")}},
			Body: &ast.BlockStmt{List: append(pre, rs.Body.List...)}}
		return &ast.BlockStmt{List: []ast.Stmt{
			&ast.AssignStmt{Lhs: []ast.Expr{ast.NewIdent("simM")}, Tok: token.DEFINE, Rhs: []ast.Expr{rs.X}},
			loop,
		}}
	}
	mname := ast.NewIdent("simM")
	keyIdent := ast.NewIdent("simK")
	if id, ok := rs.Key.(*ast.Ident); ok && id.Name != "_" {
		keyIdent = ast.NewIdent(id.Name)
	}
	var pre []ast.Stmt
	valIdent := ast.NewIdent("_")
	if id, ok := rs.Value.(*ast.Ident); ok && id.Name != "_" {
		valIdent = ast.NewIdent(id.Name)
	}
	pre = append(pre, &ast.AssignStmt{
		Lhs: []ast.Expr{valIdent, ast.NewIdent("simOK")},
		Tok: token.DEFINE,
		Rhs: []ast.Expr{&ast.IndexExpr{X: mname, Index: keyIdent}},
	})
	pre = append(pre, &ast.IfStmt{
		Cond: &ast.UnaryExpr{Op: token.NOT, X: ast.NewIdent("simOK")},
		Body: &ast.BlockStmt{List: []ast.Stmt{&ast.BranchStmt{Tok: token.CONTINUE}}},
	})
	if rs.Key == nil {
		// `for range m`: keep count semantics
		keyIdent = ast.NewIdent("simK")
		pre[0].(*ast.AssignStmt).Rhs[0].(*ast.IndexExpr).Index = keyIdent
	}
	body := &ast.BlockStmt{List: append(pre, rs.Body.List...)}
	loop := &ast.RangeStmt{
		Key:   ast.NewIdent("_"),
		Value: keyIdent,
		Tok:   token.DEFINE,
		X: &ast.CallExpr{
			Fun:  &ast.SelectorExpr{X: ast.NewIdent("simrt"), Sel: ast.NewIdent("MapKeys")},
			Args: []ast.Expr{mname},
		},
		Body: body,
	}
	return &ast.BlockStmt{List: []ast.Stmt{
		&ast.AssignStmt{Lhs: []ast.Expr{ast.NewIdent("simM")}, Tok: token.DEFINE, Rhs: []ast.Expr{rs.X}},
		loop,
	}}
}

func (in *instrumenter) stmts(list []ast.Stmt) {
	for i, s := range list {
		if rs, ok := s.(*ast.RangeStmt); ok {
			in.stmt(rs) // instrument body first
			if repl := in.rewriteMapRange(rs); repl != nil {
				list[i] = repl
			}
			continue
		}
		if ls, ok := s.(*ast.LabeledStmt); ok {
			if rs, ok := ls.Stmt.(*ast.RangeStmt); ok {
				// a labeled range over a map: the label moves onto the rewritten loop inside the block, where
				// `break L` and `continue L` of the body still find it
				in.stmt(rs)
				if repl := in.rewriteMapRange(rs); repl != nil {
					blk := repl.(*ast.BlockStmt)
					ls.Stmt = blk.List[len(blk.List)-1]
					blk.List[len(blk.List)-1] = ls
					list[i] = blk
				}
				continue
			}
		}
		in.stmt(s)
	}
}

func (in *instrumenter) stmt(s ast.Stmt) {
	switch s := s.(type) {
	case nil:
	case *ast.BlockStmt:
		in.stmts(s.List)
	case *ast.IfStmt:
		in.exprsIn(s.Init)
		in.expr(s.Cond)
		in.block(s.Body, "if")
		in.stmts(s.Body.List[1:])
		switch e := s.Else.(type) {
		case *ast.BlockStmt:
			in.block(e, "else")
			in.stmts(e.List[1:])
		case *ast.IfStmt:
			in.stmt(e)
		}
	case *ast.ForStmt:
		in.exprsIn(s.Init)
		in.expr(s.Cond)
		in.exprsIn(s.Post)
		in.block(s.Body, "for")
		in.stmts(s.Body.List[1:])
	case *ast.RangeStmt:
		in.expr(s.X)
		in.block(s.Body, "range")
		in.stmts(s.Body.List[1:])
	case *ast.SwitchStmt:
		in.exprsIn(s.Init)
		in.expr(s.Tag)
		for _, c := range s.Body.List {
			cc := c.(*ast.CaseClause)
			for _, e := range cc.List {
				in.expr(e)
			}
			in.stmts(cc.Body)
			cc.Body = append([]ast.Stmt{in.yieldStmt(cc.Colon, "case")}, cc.Body...)
		}
	case *ast.TypeSwitchStmt:
		in.exprsIn(s.Init)
		for _, c := range s.Body.List {
			cc := c.(*ast.CaseClause)
			in.stmts(cc.Body)
			cc.Body = append([]ast.Stmt{in.yieldStmt(cc.Colon, "case")}, cc.Body...)
		}
	case *ast.SelectStmt:
		for _, c := range s.Body.List {
			cc := c.(*ast.CommClause)
			in.stmts(cc.Body)
			cc.Body = append([]ast.Stmt{in.yieldStmt(cc.Colon, "comm")}, cc.Body...)
		}
	case *ast.LabeledStmt:
		in.stmt(s.Stmt)
	case *ast.ExprStmt:
		in.expr(s.X)
	case *ast.AssignStmt:
		for _, e := range s.Rhs {
			in.expr(e)
		}
		for _, e := range s.Lhs {
			in.expr(e)
		}
	case *ast.ReturnStmt:
		for _, e := range s.Results {
			in.expr(e)
		}
	case *ast.DeclStmt:
		if gd, ok := s.Decl.(*ast.GenDecl); ok {
			for _, sp := range gd.Specs {
				if vs, ok := sp.(*ast.ValueSpec); ok {
					for _, e := range vs.Values {
						in.expr(e)
					}
				}
			}
		}
	case *ast.GoStmt:
		in.expr(s.Call)
	case *ast.DeferStmt:
		in.expr(s.Call)
	case *ast.SendStmt:
		in.expr(s.Chan)
		in.expr(s.Value)
	case *ast.IncDecStmt:
		in.expr(s.X)
	}
}

func (in *instrumenter) exprsIn(s ast.Stmt) {
	if s != nil {
		in.stmt(s)
	}
}

// expr looks for function literals inside expressions and instruments their bodies.
func (in *instrumenter) expr(e ast.Expr) {
	if e == nil {
		return
	}
	ast.Inspect(e, func(n ast.Node) bool {
		if fl, ok := n.(*ast.FuncLit); ok {
			in.block(fl.Body, "funclit")
			in.stmts(fl.Body.List[1:])
			return false
		}
		return true
	})
}

func addImport(f *ast.File, path string) {
	for _, im := range f.Imports {
		if im.Path.Value == strconv.Quote(path) {
			return
		}
	}
	spec := &ast.ImportSpec{Path: &ast.BasicLit{Kind: token.STRING, Value: strconv.Quote(path)}}
	gd := &ast.GenDecl{Tok: token.IMPORT, Specs: []ast.Spec{spec}}
	f.Decls = append([]ast.Decl{gd}, f.Decls...)
	f.Imports = append(f.Imports, spec)
}

// Instrument copies srcRepo into dst and rewrites it. simrtSrc is the path of simrt.go.
// InstrumentTags lists the build tags of the build the instrumented copy is made for ("race" for the C18 worker): a
// file whose build constraint excludes it from that build is left exactly as it is (the compiler will skip it too);
// a file that is included keeps its constraint lines at the top of the rewritten source.
var InstrumentTags []string

func Instrument(srcRepo, dst, simrtSrc string, withTests bool) (*InstrResult, error) {
	dirs, err := copyTree(srcRepo, dst, withTests)
	if err != nil {
		return nil, err
	}
	if err := copyFile(simrtSrc, filepath.Join(dst, "simrt", "simrt.go")); err != nil {
		return nil, err
	}
	in := &instrumenter{fset: token.NewFileSet()}
	if gobuild.Default.GOROOT == "" || !dirExists(filepath.Join(gobuild.Default.GOROOT, "src")) {
		out, err := exec.Command("go", "env", "GOROOT").Output()
		if err != nil {
			return nil, fmt.Errorf("go env GOROOT: %v", err)
		}
		gobuild.Default.GOROOT = strings.TrimSpace(string(out))
	}
	os.Setenv("GOFLAGS", "-mod=mod")
	os.Setenv("GOPROXY", "off")
	os.Setenv("GOSUMDB", "off")
	os.Setenv("GOTOOLCHAIN", "local")
	// the "source" importer resolves module import paths relative to the current directory
	cwd, _ := os.Getwd()
	if err := os.Chdir(dst); err != nil {
		return nil, err
	}
	defer os.Chdir(cwd)
	imp := importer.ForCompiler(in.fset, "source", nil)
	type parsed struct {
		path string
		f    *ast.File
	}
	headers := map[string]string{}
	for _, d := range dirs {
		ents, err := os.ReadDir(filepath.Join(dst, d))
		if err != nil {
			return nil, err
		}
		var files []parsed
		var asts []*ast.File
		for _, e := range ents {
			n := e.Name()
			if e.IsDir() || !strings.HasSuffix(n, ".go") || strings.HasSuffix(n, "_test.go") {
				continue
			}
			p := filepath.Join(dst, d, n)
			src, err := os.ReadFile(p)
			if err != nil {
				return nil, err
			}
			for _, dir := range []string{"//go:linkname", "//go:embed", "//go:cgo_", "//go:generate", "//go:wasm", "//go:nosplit", "//go:norace", "//go:uintptr"} {
				if bytes.Contains(src, []byte("\n"+dir)) {
					return nil, fmt.Errorf("%s: compiler directive %s is not supported by the instrumenter", p, dir)
				}
			}
			header := ""
			if bytes.Contains(src, []byte("//go:build")) || bytes.Contains(src, []byte("// +build")) {
				ctx := gobuild.Default
				ctx.BuildTags = append([]string(nil), InstrumentTags...)
				ctx.CgoEnabled = true
				match, err := ctx.MatchFile(filepath.Join(dst, d), n)
				if err != nil {
					return nil, fmt.Errorf("%s: build constraint: %v", p, err)
				}
				if !match {
					continue // excluded from this build: left as it is
				}
				for _, line := range strings.Split(string(src), "\n") {
					t := strings.TrimSpace(line)
					if strings.HasPrefix(t, "package ") {
						break
					}
					if strings.HasPrefix(t, "//go:build") || strings.HasPrefix(t, "// +build") {
						header += t + "\n"
					}
				}
				if header != "" {
					header += "\n"
				}
			}
			f, err := parser.ParseFile(in.fset, p, src, parser.SkipObjectResolution)
			if err != nil {
				return nil, fmt.Errorf("parse %s: %v", p, err)
			}
			headers[filepath.Join(d, n)] = header
			files = append(files, parsed{filepath.Join(d, n), f})
			asts = append(asts, f)
		}
		if len(asts) == 0 {
			continue
		}
		info := &types.Info{Types: map[ast.Expr]types.TypeAndValue{}}
		conf := types.Config{Importer: imp, Error: func(error) {}}
		pkgPath := modPath
		if d != "." {
			pkgPath = modPath + "/" + filepath.ToSlash(d)
		}
		if _, err := conf.Check(pkgPath, in.fset, asts, info); err != nil {
			return nil, fmt.Errorf("type-check %s: %v", pkgPath, err)
		}
		in.info = info
		for _, pf := range files {
			in.file = pf.path
			before := len(in.sites) + len(in.maps)
			for _, decl := range pf.f.Decls {
				fd, ok := decl.(*ast.FuncDecl)
				if !ok {
					if gd, ok := decl.(*ast.GenDecl); ok {
						for _, sp := range gd.Specs {
							if vs, ok := sp.(*ast.ValueSpec); ok {
								in.fn = "(package var)"
								for _, e := range vs.Values {
									in.expr(e)
								}
							}
						}
					}
					continue
				}
				if fd.Body == nil {
					continue
				}
				in.fn = fd.Name.Name
				if fd.Recv != nil && len(fd.Recv.List) > 0 {
					var b bytes.Buffer
					format.Node(&b, in.fset, fd.Recv.List[0].Type)
					in.fn = "(" + b.String() + ")." + fd.Name.Name
				}
				in.block(fd.Body, "func")
				in.stmts(fd.Body.List[1:])
			}
			if in.err != nil {
				return nil, in.err
			}
			if len(in.sites)+len(in.maps) == before {
				continue
			}
			addImport(pf.f, modPath+"/simrt")
			var out bytes.Buffer
			// Comments are dropped on purpose: with inserted position-less nodes go/printer may
			// otherwise place a comment inside an inserted statement.
			pf.f.Comments = nil
			stripDocs(pf.f)
			if err := format.Node(&out, in.fset, pf.f); err != nil {
				return nil, fmt.Errorf("print %s: %v", pf.path, err)
			}
			if err := os.WriteFile(filepath.Join(dst, pf.path), append([]byte(headers[pf.path]), out.Bytes()...), 0o644); err != nil {
				return nil, err
			}
		}
	}
	gen := fmt.Sprintf("package simrt\n\n// NSites is the number of yield sites the instrumenter inserted.\nconst NSites = %d\n", len(in.sites))
	if err := os.WriteFile(filepath.Join(dst, "simrt", "sites.go"), []byte(gen), 0o644); err != nil {
		return nil, err
	}
	tab, _ := json.Marshal(map[string]any{"sites": in.sites, "maps": in.maps})
	if err := os.WriteFile(filepath.Join(dst, "simrt", "sites.json"), tab, 0o644); err != nil {
		return nil, err
	}
	return &InstrResult{Sites: in.sites, MapSites: in.maps}, nil
}

func stripDocs(f *ast.File) {
	f.Doc = nil
	ast.Inspect(f, func(n ast.Node) bool {
		switch x := n.(type) {
		case *ast.FuncDecl:
			x.Doc = nil
		case *ast.GenDecl:
			x.Doc = nil
		case *ast.TypeSpec:
			x.Doc, x.Comment = nil, nil
		case *ast.ValueSpec:
			x.Doc, x.Comment = nil, nil
		case *ast.Field:
			x.Doc, x.Comment = nil, nil
		case *ast.ImportSpec:
			x.Doc, x.Comment = nil, nil
		}
		return true
	})
}

func dirExists(p string) bool {
	st, err := os.Stat(p)
	return err == nil && st.IsDir()
}
