package main

import (
	"fmt"
	"os"
)

func main() {
	if len(os.Args) < 2 {
		fmt.Fprintln(os.Stderr, "usage: godsim check <id> [--tier quick|thorough] | replay <file> | selftest [transparency|determinism] | instrument <dst> [--with-tests]")
		os.Exit(2)
	}
	switch os.Args[1] {
	case "instrument":
		res, err := Instrument(repoDir(), os.Args[2], verifDir()+"/simrt/simrt.go", len(os.Args) > 3 && os.Args[3] == "--with-tests")
		if err != nil {
			fmt.Fprintln(os.Stderr, "instrument:", err)
			os.Exit(2)
		}
		fmt.Printf("sites=%d maprange=%d\n", len(res.Sites), len(res.MapSites))
	default:
		os.Exit(dispatch(os.Args[1:]))
	}
}
