package main

import (
	"encoding/json"
	"fmt"
	"math"
	"sort"
	"strings"
)

// Subject is one container under test together with its trivial reference model. Worlds are
// written against this interface; the five implementations (list, set, stack/queue/ring, heap/pq,
// key-value) are generic over the element type.
type Subject interface {
	Kind() string
	Family() string
	Config() Cfg
	// GenOp draws the next mutating operation against the *model* state (so that "remove a present
	// key" or "index == size" are hit on purpose). ModelApply advances the model only.
	GenOp(r *Rng, id int, c *Client) Op
	ModelApply(op Op)
	// Step applies op to the real container and to the model and evaluates the oracles that are
	// active in o.
	Step(op Op, o *Oracle)
	// Obs is the canonical observable state of the real container (Size, Values, Keys, every Get
	// over the domain, Peek); ObsJSON additionally includes the ToJSON document. ModelObs is what
	// the model expects Obs to be.
	Obs() string
	ObsJSON() string
	ModelObs() string
	ModelSize() int
	Real() any
	IO() jsonIO
	// Fresh returns a new subject of the same kind and configuration with an empty model.
	Fresh() Subject
	// LoadModel replaces the model content by what the bytes denote according to the reference
	// decoder (encoding/json into plain Go values + the kind's normalisation). ok=false: the
	// reference decoder rejects the input (nothing is denoted).
	LoadModel(b []byte) (ok bool)
	// CheckLoaded compares the real container with the model after a successful load, with the
	// leniency a load needs (duplicates under coarsened comparators etc.), and re-synchronises the
	// model to the legal choice the container made.
	CheckLoaded(o *Oracle, tag string)
	// EncodeModel is the reference encoding (plain encoding/json of Go slices / an ordered object
	// writer) of the model content in the kind's own document format; AdoptModel copies the model of
	// another subject of the same type.
	EncodeModel() []byte
	AdoptModel(from Subject)
	// GenRead draws a read-only operation (C18 catalogue); DoRead executes it on the real container
	// and returns the canonical result.
	GenRead(r *Rng, id int) Op
	DoRead(op Op) string
	// Drain removes all elements the way the family removes (Pop/Dequeue) and returns the canonical
	// sequence (empty string for families without a removal order).
	Drain() string
	// GenHostile draws any operation with hostile arguments (C17); DoHostile executes it on the real
	// container only.
	GenHostile(r *Rng, id int) Op
	DoHostile(op Op)
}

// Client is one scripted client: a role that biases the operations it issues, and a cursor.
type Client struct {
	Role   string
	Cursor int
}

// Roler is implemented by subjects whose generators know several client roles.
type Roler interface{ Roles() []string }

type jsonIO interface {
	ToJSON() ([]byte, error)
	FromJSON([]byte) error
	MarshalJSON() ([]byte, error)
	UnmarshalJSON([]byte) error
}

type baseContainer interface {
	Empty() bool
	Size() int
	Clear()
	String() string
}

// hostile positions
var hostileInts = []int{math.MinInt, -(1 << 31), -2, -1, 0, 1, 2, 3, 1 << 31, math.MaxInt}

func genPos(r *Rng, size int) int {
	switch r.Weighted(8, 2, 2, 2, 2, 2, 2, 1, 1, 1) {
	case 0:
		return r.Intn(size + 1)
	case 1:
		return 0
	case 2:
		return size - 1
	case 3:
		return size
	case 4:
		return size / 2
	case 5:
		return size + 1
	case 6:
		return -1
	case 7:
		return size - 2
	case 8:
		return math.MinInt
	}
	return math.MaxInt
}

// fillIdx expands a Fill op (A = [n, start] or [n, start, stride]) into n table indices: stride 7 by
// default (distinct elements as long as the table size is no multiple of 7), stride 1 for insertion in
// table order (ascending under the natural comparators).
func fillIdx(a []int) []int {
	stride := 7
	if len(a) > 2 && a[2] != 0 {
		stride = a[2]
	}
	out := make([]int, a[0])
	for i := range out {
		out[i] = a[1] + i*stride
	}
	return out
}

// genFill draws a bulk prefill op: large containers (array capacities above 1024, heap levels wider
// than 32, B-trees several levels deep) are reached in one step so that the rest of the run plays there.
func genFill(r *Rng, id int, lo, hi int) Op {
	return Op{ID: id, N: "Fill", A: []int{r.Range(lo, hi), r.Intn(1000)}}
}

func genCount(r *Rng) int {
	if r.P(1, 60) {
		if r.P(1, 3) {
			return r.Range(128, 300) // (more arguments than most containers have elements)
		}
		return r.Range(65, 140) // a long variadic list (bulk paths)
	}
	return []int{0, 1, 1, 1, 2, 2, 3, 3, 9}[r.Intn(9)]
}

func genIdxs(r *Rng, n, dom int) []int {
	out := make([]int, n)
	for i := range out {
		out[i] = r.Intn(dom)
	}
	return out
}

// derived deterministic pseudo-choices at execution time (never from the run PRNG)
func derive(opID, salt, n int) int {
	if n <= 0 {
		return 0
	}
	return int(mix(uint64(opID)+0x1234, uint64(salt)) % uint64(n))
}

func sortedStrings(xs []string) []string {
	ys := append([]string(nil), xs...)
	sort.Strings(ys)
	return ys
}

func mapS[T any](xs []T, f func(T) string) []string {
	out := make([]string, len(xs))
	for i, x := range xs {
		out[i] = f(x)
	}
	return out
}

func bracket(xs []string) string { return "[" + strings.Join(xs, " ") + "]" }

// checkC15 evaluates the C15 agreement rules on any container.
func checkC15(o *Oracle, c baseContainer, nValues, nKeys int, name string) {
	if !o.On("C15") {
		return
	}
	size := c.Size()
	if size < 0 {
		o.Fail("C15", "size-negative", "after %s: Size()=%d", o.cur, size)
	}
	if c.Empty() != (size == 0) {
		o.Fail("C15", "empty-iff-size0", "after %s: Empty()=%v but Size()=%d", o.cur, c.Empty(), size)
	}
	if nValues != size {
		o.Fail("C15", "len-values", "after %s: len(Values())=%d but Size()=%d", o.cur, nValues, size)
	}
	if nKeys >= 0 && nKeys != size {
		o.Fail("C15", "len-keys", "after %s: len(Keys())=%d but Size()=%d", o.cur, nKeys, size)
	}
	if s := c.String(); !strings.HasPrefix(s, name) {
		o.Fail("C15", "string-name", "after %s: String()=%q does not begin with %q", o.cur, s, name)
	}
}

func jsonText(j jsonIO) string {
	b, err := j.ToJSON()
	if err != nil {
		if strings.Contains(err.Error(), "unsupported value") {
			return "ERR: unsupported value" // NaN / Inf: which one is met first depends on hash order
		}
		return "ERR:" + err.Error()
	}
	return string(b)
}

// refDecodeSlice is the reference decoder for value containers.
func refDecodeSlice[T any](b []byte) ([]T, bool) {
	var xs []T
	if err := json.Unmarshal(b, &xs); err != nil {
		return nil, false
	}
	return xs, true
}

func fmtErr(err error) string {
	if err == nil {
		return "<nil>"
	}
	return fmt.Sprintf("error(%v)", err)
}

// probeTab returns the table entries a state comparison probes: the whole table, or in the
// large-size runs a derived sample of 48 entries (different for every op).
func probeTab[T any](tab []T, cfg Cfg, opID int) []T {
	if cfg.Mode != "big" || len(tab) <= 48 {
		return tab
	}
	out := make([]T, 48)
	for i := range out {
		out[i] = tab[derive(opID, 900+i, len(tab))]
	}
	return out
}

// argDamage compares a slice that was passed to a container operation with the copy taken before the
// call: same length, same elements, and the spare capacity behind it still zero.
func argDamage[T comparable](vs, before []T, str func(T) string) string {
	if len(vs) != len(before) {
		return ""
	}
	for i := range vs {
		if str(vs[i]) != str(before[i]) {
			return fmt.Sprintf("element %d of the passed slice was %s before the call and is %s after it (passed %s)", i, str(before[i]), str(vs[i]), joinS(before, str))
		}
	}
	var zero T
	for i, x := range vs[len(vs):cap(vs)] {
		if str(x) != str(zero) {
			return fmt.Sprintf("the callee wrote %s into the spare capacity of the passed slice (offset %d past its length; passed %s)", str(x), i, joinS(before, str))
		}
	}
	return ""
}

// ownArgs prepares a slice the container itself returned (Values()) for being passed back in: the element tables'
// slices have zeroed spare capacity, a returned slice may legitimately have anything there, so what lies beyond its
// length is cleared first (the slice is the caller's now) and argDamage's reading of the spare capacity stays exact.
func ownArgs[T any](vs []T) []T {
	clear(vs[len(vs):cap(vs)])
	return vs
}

// sameElem / sameSeq: element identity as the oracles mean it. For floats == conflates -0 with +0 (and
// NaN with nothing), so float elements are compared through their exact rendering.
func sameElem[T comparable](d *Dom[T], a, b T) bool {
	if d.Elem == "float" {
		return d.Str(a) == d.Str(b)
	}
	return a == b // (for `any` elements: == on interfaces, which is what the containers use)
}

func sameSeq[T comparable](d *Dom[T], a, b []T) bool {
	if len(a) != len(b) {
		return false
	}
	for i := range a {
		if !sameElem(d, a[i], b[i]) {
			return false
		}
	}
	return true
}
