package main

import (
	"fmt"
	"hash/fnv"
	"reflect"
	"sort"
	"unsafe"
)

// Deep fingerprint: a reflect + unsafe walk from the container pointer through unexported fields
// with canonical pointer numbering (cycle-safe), slice len and cap, map entries in canonical
// order: "the container's memory image". Never decisive on its own (DESIGN.md section 3.8): an
// image change during a read-only operation only triggers an amplification run.

type fpWalker struct {
	h     interface{ Write([]byte) (int, error) }
	seen  map[unsafe.Pointer]int
	nodes int
}

func (w *fpWalker) str(s string) { w.h.Write([]byte(s)); w.h.Write([]byte{0}) }

func (w *fpWalker) walk(v reflect.Value, depth int) {
	w.nodes++
	if w.nodes > 2_000_000 || depth > 100_000 {
		return
	}
	switch v.Kind() {
	case reflect.Bool, reflect.Int, reflect.Int8, reflect.Int16, reflect.Int32, reflect.Int64,
		reflect.Uint, reflect.Uint8, reflect.Uint16, reflect.Uint32, reflect.Uint64, reflect.Uintptr,
		reflect.Float32, reflect.Float64, reflect.Complex64, reflect.Complex128, reflect.String:
		w.str(fmt.Sprint(v))
	case reflect.Ptr:
		if v.IsNil() {
			w.str("nil")
			return
		}
		p := v.UnsafePointer()
		if n, ok := w.seen[p]; ok {
			w.str(fmt.Sprintf("@%d", n))
			return
		}
		w.seen[p] = len(w.seen)
		w.str(fmt.Sprintf("&%d", len(w.seen)-1))
		w.walk(v.Elem(), depth+1)
	case reflect.Struct:
		w.str("{")
		for i := 0; i < v.NumField(); i++ {
			f := v.Field(i)
			if !f.CanInterface() && f.CanAddr() {
				f = reflect.NewAt(f.Type(), unsafe.Pointer(f.UnsafeAddr())).Elem()
			}
			w.walk(f, depth+1)
		}
		w.str("}")
	case reflect.Slice:
		if v.IsNil() {
			w.str("nilslice")
			return
		}
		w.str(fmt.Sprintf("[len=%d cap=%d", v.Len(), v.Cap()))
		full := v.Slice(0, v.Cap())
		for i := 0; i < full.Len(); i++ {
			w.walk(full.Index(i), depth+1)
		}
		w.str("]")
	case reflect.Array:
		for i := 0; i < v.Len(); i++ {
			w.walk(v.Index(i), depth+1)
		}
	case reflect.Map:
		if v.IsNil() {
			w.str("nilmap")
			return
		}
		type ent struct {
			k string
			v reflect.Value
		}
		var es []ent
		it := v.MapRange()
		for it.Next() {
			val := reflect.New(v.Type().Elem()).Elem()
			val.Set(it.Value())
			es = append(es, ent{fmt.Sprintf("%#v", it.Key()), val})
		}
		sort.Slice(es, func(i, j int) bool { return es[i].k < es[j].k })
		w.str(fmt.Sprintf("map[%d", len(es)))
		for _, e := range es {
			w.str(e.k)
			w.walk(e.v, depth+1)
		}
		w.str("]")
	case reflect.Interface:
		if v.IsNil() {
			w.str("nilif")
			return
		}
		w.walk(v.Elem(), depth+1)
	case reflect.Func:
		if v.IsNil() {
			w.str("nilfunc")
		} else {
			w.str("func")
		}
	default:
		w.str(v.Kind().String())
	}
}

// fingerprint returns a hash of the memory image reachable from the container.
func fingerprint(c any) uint64 {
	h := fnv.New64a()
	w := &fpWalker{h: h, seen: map[unsafe.Pointer]int{}}
	w.walk(reflect.ValueOf(c), 0)
	return h.Sum64()
}
