package main

import (
	"fmt"
	"slices"
	"strconv"

	"github.com/emirpasic/gods/v2/containers"
	"github.com/emirpasic/gods/v2/maps/treebidimap"
	"github.com/emirpasic/gods/v2/maps/treemap"
	"github.com/emirpasic/gods/v2/sets/treeset"

	"github.com/emirpasic/gods/v2/lists"
	"github.com/emirpasic/gods/v2/maps"
	"github.com/emirpasic/gods/v2/sets"
)

// C14: enumerable functions agree with iteration and leave the receiver unchanged.
// After a seeded history, Each/Any/All/Find/Select/Map are called with callbacks drawn from the
// family (iterenum.go). Select/Map results are wrapped as subjects of the same kind so that the
// ordinary model comparison (and follow-up mutations) judge their content, discipline and
// comparator; receiver and result are then mutated in turn to show they share no state.

type EnumSubject interface {
	Enumerate(op Op, o *Oracle) (judged bool)
}

var enumNames = []string{"Each", "Any", "All", "Find", "Select", "Map"}

var enumKinds = []string{"arraylist", "singlylinkedlist", "doublylinkedlist", "treeset", "linkedhashset", "treemap", "linkedhashmap", "treebidimap"}

// resultTags are the oracles of the other properties that are applied to a Select/Map result
// (reported under C14: "a new container of the same kind and ordering discipline").
var resultTags = []string{"C01", "C02", "C03", "C04", "C09", "C10"}

func subOracle(o *Oracle, tags ...string) *Oracle {
	so := NewOracle(o.Report, tags...)
	so.Kind = o.Kind
	return so
}

func adopt(o, so *Oracle, what string) {
	if so.V != nil && o.V == nil {
		o.V = so.V
		o.V.Oracle = "C14/result-" + so.V.Oracle
		o.V.Msg = what + ": " + o.V.Msg
	}
}

// ---- index flavour (lists and the two iterable sets) ---------------------------------------------------

type idxPair[T any] struct {
	i int
	v T
}

func enumerateIdx[T comparable](op Op, o *Oracle, d *Dom[T], en *idxEnumA[T], seq []idxPair[T],
	obs func() string, wrap func(result any, model []T) Subject, insertAll func(xs []T) any, mutateRecv func()) bool {
	p, k := op.A[0], op.A[1]
	pred := idxPred(d, p, k)
	if len(op.A) > 2 && op.A[2] == 1 {
		// a re-entrant predicate: it reads the receiver through other read-only calls while the outer
		// enumeration is in progress (legal: enumerables and fresh iterators do not modify the container)
		inner := pred
		pred = func(i int, v T) bool {
			en.Find(func(j int, _ T) bool { return j == i }) // (first: see the note in checkC09)
			en.Any(func(int, T) bool { return false })
			return inner(i, v)
		}
	}
	ps := func(x idxPair[T]) string { return strconv.Itoa(x.i) + ":" + d.Str(x.v) }
	before := obs()
	unchanged := func(what string) {
		if after := obs(); after != before {
			o.Fail("C14", "receiver-changed", "%s modified the receiver:\n before %s\n after  %s", what, before, after)
		}
	}
	switch op.N {
	case "Each":
		var log []idxPair[T]
		en.Each(func(i int, v T) {
			if len(op.A) > 2 && op.A[2] == 1 {
				en.All(func(int, T) bool { return true }) // re-entrant
				en.Each(func(int, T) {})
			}
			log = append(log, idxPair[T]{i, v})
		})
		if g, w := mapS(log, ps), mapS(seq, ps); !slices.Equal(g, w) {
			o.Fail("C14", "each-log", "Each visited %v, iterator sequence %v", g, w)
		}
	case "Any":
		want := false
		for _, x := range seq {
			want = want || pred(x.i, x.v)
		}
		if got := en.Any(pred); got != want {
			o.Fail("C14", "any", "Any(pred %d,%d)=%v, want %v over %v", p, k, got, want, mapS(seq, ps))
		}
	case "All":
		want := true
		for _, x := range seq {
			want = want && pred(x.i, x.v)
		}
		if got := en.All(pred); got != want {
			o.Fail("C14", "all", "All(pred %d,%d)=%v, want %v over %v", p, k, got, want, mapS(seq, ps))
		}
	case "Find":
		var zero T
		want := idxPair[T]{-1, zero}
		for _, x := range seq {
			if pred(x.i, x.v) {
				want = x
				break
			}
		}
		gi, gv := en.Find(pred)
		if gi != want.i || d.Str(gv) != d.Str(want.v) {
			o.Fail("C14", "find", "Find(pred %d,%d)=(%d,%s), want (%d,%s) over %v", p, k, gi, d.Str(gv), want.i, d.Str(want.v), mapS(seq, ps))
		}
	case "Select", "Map":
		var model []T
		var res any
		if op.N == "Select" {
			for _, x := range seq {
				if pred(x.i, x.v) {
					model = append(model, x.v)
				}
			}
			res = en.Select(pred)
		} else {
			f := idxMap(d, p, k)
			for _, x := range seq {
				model = append(model, f(x.i, x.v))
			}
			res = en.Map(f)
		}
		unchanged(op.N)
		rs := wrap(res, model)
		if g, w := rs.Obs(), rs.ModelObs(); g != w {
			o.Fail("C14", "result-content", "%s(%d,%d) over %v returned %s, want %s", op.N, p, k, mapS(seq, ps), g, w)
			return true
		}
		// "built by inserting the ... elements in iteration order": differential against the library's
		// own insertion into a fresh container of the same kind (exact elements, not only classes)
		ref := insertAll(model)
		if g, w := joinS(res.(containers.Container[T]).Values(), d.Str), joinS(ref.(containers.Container[T]).Values(), d.Str); g != w {
			o.Fail("C14", "result-vs-repeated-insertion", "%s(%d,%d) over %v returned %s, inserting the same elements one by one into a fresh container gives %s", op.N, p, k, mapS(seq, ps), g, w)
			return true
		}
		// "a new container of the same kind": it also serialises like one
		if g, w := jsonText(res.(jsonIO)), jsonText(ref.(jsonIO)); g != w {
			o.Fail("C14", "result-tojson", "the result of %s(%d,%d) over %v serialises as %s, a fresh container holding the same elements as %s", op.N, p, k, mapS(seq, ps), g, w)
			return true
		}
		// ... and iterates like one, in both directions
		if itf := resultIter[T](res); itf != nil {
			vals := res.(containers.Container[T]).Values()
			var fwd, back []T
			for itf.Next() {
				fwd = append(fwd, itf.Value())
			}
			if rit, ok := itf.(containers.ReverseIteratorWithIndex[T]); ok {
				for rit.End(); rit.Prev(); {
					back = append(back, rit.Value())
				}
				slices.Reverse(back)
			} else {
				back = vals
			}
			if joinS(fwd, d.Str) != joinS(vals, d.Str) || joinS(back, d.Str) != joinS(vals, d.Str) {
				o.Fail("C14", "result-iteration", "the result of %s(%d,%d) over %v has Values() %s but iterates forwards as %s and backwards as (reversed) %s", op.N, p, k, mapS(seq, ps), joinS(vals, d.Str), joinS(fwd, d.Str), joinS(back, d.Str))
				return true
			}
		}
		// the result is a working container of the same discipline (and comparator): mutate it under the
		// ordinary oracles; the receiver must not move
		so := subOracle(o, resultTags...)
		c := &Client{Role: "mixed"}
		r := NewRng(uint64(op.ID)*7919 + 17)
		for i := 0; i < 6 && so.V == nil; i++ {
			x := rs.GenOp(r, op.ID, c)
			rs.Step(x, so)
		}
		adopt(o, so, op.N+" result under further mutation")
		o.cur = op
		unchanged("mutating the result of " + op.N)
		// and the other way round
		keep := rs.Obs()
		mutateRecv()
		o.cur = op
		if after := rs.Obs(); after != keep {
			o.Fail("C14", "result-shares-state", "mutating the receiver after %s changed the result: %s -> %s", op.N, keep, after)
		}
		return true
	}
	unchanged(op.N)
	return true
}

func (s *listSubj[T]) Enumerate(op Op, o *Oracle) bool {
	o.cur, o.Kind = op, s.cfg.Kind
	var seq []idxPair[T]
	for it := listIter(s.l); it.Next(); {
		seq = append(seq, idxPair[T]{it.Index(), it.Value()})
	}
	return enumerateIdx(op, o, s.d, listEnum(s.l), seq, s.ObsJSON,
		func(res any, model []T) Subject {
			n := newListSubj(s.cfg, s.d)
			n.l, n.m = res.(lists.List[T]), model
			return n
		},
		func(xs []T) any {
			f := makeList[T](s.cfg.Kind)
			for _, x := range xs {
				f.Add(x)
			}
			return f
		},
		func() {
			s.Step(Op{ID: op.ID, N: "Add", A: []int{derive(op.ID, 1, len(s.d.Tab))}}, o)
			s.Step(Op{ID: op.ID, N: "Set", A: []int{0, derive(op.ID, 2, len(s.d.Tab))}}, o)
			s.Step(Op{ID: op.ID, N: "Remove", A: []int{derive(op.ID, 3, max(len(s.m), 1))}}, o)
		})
}

func (s *setSubj[T]) Enumerate(op Op, o *Oracle) bool {
	o.cur, o.Kind = op, s.cfg.Kind
	en := setEnum(s.s)
	if en == nil {
		return false
	}
	var seq []idxPair[T]
	for it := setIter(s.s); it.Next(); {
		seq = append(seq, idxPair[T]{it.Index(), it.Value()})
	}
	return enumerateIdx(op, o, s.d, en, seq, s.ObsJSON,
		func(res any, model []T) Subject {
			n := newSetSubj(s.cfg, s.d, false)
			n.s = res.(sets.Set[T])
			n.modelAdd(model) // inserting in iteration order: sets deduplicate (and TreeSet re-sorts)
			// the result is a set like any other: it combines with the receiver and with itself
			rc, sc := n.classSet(), s.classSet()
			for _, c := range []struct {
				name string
				got  sets.Set[T]
				keep func(inRes, inRecv bool) bool
			}{
				{"result.Union(receiver)", setAlgebra[T](n.s, s.s, "Union"), func(a, b bool) bool { return a || b }},
				{"receiver.Intersection(result)", setAlgebra[T](s.s, n.s, "Intersection"), func(a, b bool) bool { return a && b }},
				{"result.Difference(receiver)", setAlgebra[T](n.s, s.s, "Difference"), func(a, b bool) bool { return a && !b }},
				{"result.Union(result)", setAlgebra[T](n.s, n.s, "Union"), func(a, _ bool) bool { return a }},
			} {
				want := []string{}
				for cl := range rc {
					if c.keep(true, sc[cl]) {
						want = append(want, cl)
					}
				}
				for cl := range sc {
					if !rc[cl] && c.keep(false, true) {
						want = append(want, cl)
					}
				}
				if g, w := sortedStrings(mapS(c.got.Values(), s.class)), sortedStrings(want); !slices.Equal(g, w) {
					o.Fail("C14", "result-algebra", "%s of a %s result: %v, want %v", c.name, op.N, g, w)
				}
			}
			return n
		},
		func(xs []T) any {
			f := newSetSubj(s.cfg, s.d, false).s
			for _, x := range xs {
				f.Add(x)
			}
			return f
		},
		func() {
			s.Step(Op{ID: op.ID, N: "Add", A: []int{derive(op.ID, 1, len(s.d.Tab)), derive(op.ID, 2, len(s.d.Tab))}}, o)
			if len(s.m) > 0 {
				s.Step(Op{ID: op.ID, N: "Remove", A: []int{tabIndex(s.d, s.m[derive(op.ID, 3, len(s.m))])}}, o)
			}
		})
}

// ---- key flavour (TreeMap, LinkedHashMap, TreeBidiMap) -----------------------------------------------------

func (s *kvSubj[K]) Enumerate(op Op, o *Oracle) bool {
	o.cur, o.Kind = op, s.cfg.Kind
	en := s.enum()
	if en == nil {
		return false
	}
	d := s.d
	p, k := op.A[0], op.A[1]
	pred := keyPred(d, p, k)
	reentrant := len(op.A) > 2 && op.A[2] == 1
	if reentrant {
		// a re-entrant predicate: reads the receiver through other read-only calls mid-enumeration
		inner := pred
		pred = func(key K, v string) bool {
			en.Find(func(k2 K, _ string) bool { return d.Str(k2) == d.Str(key) })
			en.Any(func(K, string) bool { return false })
			s.m.Values()
			if it := s.keyIter(); it != nil {
				it.Next()
			}
			return inner(key, v)
		}
	}
	var seq []kvEnt[K]
	for it := s.keyIter(); it.Next(); {
		seq = append(seq, kvEnt[K]{it.Key(), it.Value()})
	}
	ps := func(e kvEnt[K]) string { return d.Str(e.k) + ":" + strconv.Quote(e.v) }
	before := s.ObsJSON()
	unchanged := func(what string) {
		if after := s.ObsJSON(); after != before {
			o.Fail("C14", "receiver-changed", "%s modified the receiver:\n before %s\n after  %s", what, before, after)
		}
	}
	switch op.N {
	case "Each":
		var log []kvEnt[K]
		en.Each(func(k K, v string) {
			if reentrant {
				en.All(func(K, string) bool { return true })
				en.Each(func(K, string) {})
				s.m.Values()
			}
			log = append(log, kvEnt[K]{k, v})
		})
		if g, w := mapS(log, ps), mapS(seq, ps); !slices.Equal(g, w) {
			o.Fail("C14", "each-log", "Each visited %v, iterator sequence %v", g, w)
		}
	case "Any":
		want := false
		for _, x := range seq {
			want = want || pred(x.k, x.v)
		}
		if got := en.Any(pred); got != want {
			o.Fail("C14", "any", "Any(pred %d,%d)=%v, want %v over %v", p, k, got, want, mapS(seq, ps))
		}
	case "All":
		want := true
		for _, x := range seq {
			want = want && pred(x.k, x.v)
		}
		if got := en.All(pred); got != want {
			o.Fail("C14", "all", "All(pred %d,%d)=%v, want %v over %v", p, k, got, want, mapS(seq, ps))
		}
	case "Find":
		var want kvEnt[K]
		for _, x := range seq {
			if pred(x.k, x.v) {
				want = x
				break
			}
		}
		gk, gv := en.Find(pred)
		if d.Str(gk) != d.Str(want.k) || gv != want.v {
			o.Fail("C14", "find", "Find(pred %d,%d)=(%s,%q), want (%s,%q) over %v", p, k, d.Str(gk), gv, d.Str(want.k), want.v, mapS(seq, ps))
		}
	case "Select", "Map":
		rs := newKVSubj(s.cfg, s.d, s.vd, false)
		ref := newKVSubj(s.cfg, s.d, s.vd, false).m // the library's own repeated Put into a fresh map
		var res maps.Map[K, string]
		if op.N == "Select" {
			for _, x := range seq {
				if pred(x.k, x.v) {
					rs.modelPut(x.k, x.v)
					ref.Put(x.k, x.v)
				}
			}
			res = en.Select(pred)
		} else {
			f := keyMap(d, s.vd.Tab, p, k)
			for _, x := range seq {
				k2, v2 := f(x.k, x.v)
				rs.modelPut(k2, v2) // colliding keys or values resolve as repeated Put would
				ref.Put(k2, v2)
			}
			res = en.Map(f)
		}
		unchanged(op.N)
		if fmt.Sprintf("%T", res) != fmt.Sprintf("%T", s.m) {
			o.Fail("C14", "result-kind", "%s returned a %T, receiver is a %T", op.N, res, s.m)
			return true
		}
		rs.m = res
		if g, w := rs.Obs(), rs.ModelObs(); g != w {
			o.Fail("C14", "result-content", "%s(%d,%d) over %v returned %s, want %s", op.N, p, k, mapS(seq, ps), g, w)
			return true
		}
		if g, w := joinS(res.Keys(), d.Str)+joinS(res.Values(), strconv.Quote), joinS(ref.Keys(), d.Str)+joinS(ref.Values(), strconv.Quote); g != w {
			o.Fail("C14", "result-vs-repeated-put", "%s(%d,%d) over %v returned %s, putting the same pairs one by one into a fresh map gives %s", op.N, p, k, mapS(seq, ps), g, w)
			return true
		}
		if g, w := jsonText(res.(jsonIO)), jsonText(ref.(jsonIO)); g != w {
			o.Fail("C14", "result-tojson", "the result of %s(%d,%d) over %v serialises as %s, a fresh map holding the same pairs as %s", op.N, p, k, mapS(seq, ps), g, w)
			return true
		}
		if itf := rs.keyIter(); itf != nil { // (rs.m is the result)
			keys := res.Keys()
			var fwd, back []K
			for itf.Next() {
				fwd = append(fwd, itf.Key())
			}
			if rit, ok := itf.(containers.ReverseIteratorWithKey[K, string]); ok {
				for rit.End(); rit.Prev(); {
					back = append(back, rit.Key())
				}
				slices.Reverse(back)
			} else {
				back = keys
			}
			if joinS(fwd, d.Str) != joinS(keys, d.Str) || joinS(back, d.Str) != joinS(keys, d.Str) {
				o.Fail("C14", "result-iteration", "the result of %s(%d,%d) over %v has Keys() %s but iterates forwards as %s and backwards as (reversed) %s", op.N, p, k, mapS(seq, ps), joinS(keys, d.Str), joinS(fwd, d.Str), joinS(back, d.Str))
				return true
			}
		}
		so := subOracle(o, resultTags...)
		c := &Client{Role: "churn"}
		r := NewRng(uint64(op.ID)*7919 + 17)
		for i := 0; i < 6 && so.V == nil; i++ {
			rs.Step(rs.GenOp(r, op.ID, c), so)
		}
		adopt(o, so, op.N+" result under further mutation")
		o.cur = op
		unchanged("mutating the result of " + op.N)
		keep := rs.Obs()
		s.Step(Op{ID: op.ID, N: "Put", A: []int{derive(op.ID, 1, len(d.Tab)), derive(op.ID, 2, len(s.vd.Tab))}}, o)
		if len(s.ents) > 0 {
			s.Step(Op{ID: op.ID, N: "Remove", A: []int{tabIndex(d, s.ents[derive(op.ID, 3, len(s.ents))].k)}}, o)
		}
		o.cur = op
		if after := rs.Obs(); after != keep {
			o.Fail("C14", "result-shares-state", "mutating the receiver after %s changed the result: %s -> %s", op.N, keep, after)
		}
		return true
	}
	unchanged(op.N)
	return true
}

// resultIter returns an iterator of a Select/Map result of the index flavour.
func resultIter[T comparable](res any) containers.IteratorWithIndex[T] {
	switch r := res.(type) {
	case lists.List[T]:
		return listIter(r)
	case sets.Set[T]:
		return setIter(r)
	}
	return nil
}

type enumWorld struct{}

func (w *enumWorld) Gen(seed uint64, tier string) *Plan {
	r := NewRng(seed)
	if r.P(1, 1500) {
		return genDeep(r)
	}
	cfg := genCfg(r, enumKinds, tier)
	if cfg.Dom > 32 {
		cfg.Dom = 32
	}
	if floatOK("C14", cfg.Kind) && r.P(1, 8) {
		useFloat(r, &cfg) // both zeros (== but distinguishable), infinities, NaN keys for the tree kinds
		cfg.NoNaN = !usesCmp(cfg.Kind)
	}
	p := &Plan{World: "enum", Cfg: cfg}
	s := makeSubject(cfg, false)
	roles := s.(Roler).Roles()
	c := &Client{Role: roles[r.Intn(len(roles))]}
	p.Clients = []string{c.Role}
	n := []int{3, 6, 12, 25, 50}[r.Intn(5)]
	id := 0
	if cfg.Elem != "float" && r.P(1, 30) {
		// a receiver of several hundred elements (enumerations that work in blocks, results that outgrow a buffer)
		p.Cfg.Dom = 256
		cfg = p.Cfg
		s = makeSubject(cfg, false)
		op := genFill(r, id, 70, 600)
		id++
		s.ModelApply(op)
		p.Ops = append(p.Ops, op)
		n = min(n, 12)
	}
	for i := 0; i < n; i++ {
		op := s.GenOp(r, id, c)
		id++
		s.ModelApply(op)
		p.Ops = append(p.Ops, op)
		if r.P(1, 4) || i == n-1 {
			for j := r.Range(1, 4); j > 0; j-- {
				p.Ops = append(p.Ops, Op{ID: id, N: enumNames[r.Intn(len(enumNames))], X: 1, A: []int{r.Intn(nPreds * nMaps), r.Intn(cfg.Dom), r.Weighted(3, 1)}})
				id++
			}
		}
	}
	return p
}

func (w *enumWorld) Exec(p *Plan, st *RunStats) *Violation {
	if p.World == "enum-deep" {
		return execDeep(p, st)
	}
	attach(p)
	start := stepCount
	s := makeSubject(p.Cfg, false)
	o := NewOracle("C14", "C14")
	o.Kind = p.Cfg.Kind
	dependent := 0
	for _, op := range p.Ops {
		op := op
		st.Ops++
		if op.X == 1 && slices.Contains(enumNames, op.N) {
			size := s.ModelSize()
			safely(o, op, func() {
				if s.(EnumSubject).Enumerate(op, o) && size > 0 && posMod(op.A[0], nPreds) >= 2 {
					dependent++
				}
			})
		} else {
			safely(o, op, func() { s.Step(op, o) })
		}
		if traceOn {
			trace("op %d %s -> %016x", op.ID, op.N, hashStr(s.Obs()))
		}
		if o.Failed() {
			break
		}
	}
	st.Steps = stepCount - start
	st.NonTrivial = dependent >= 1
	return o.V
}

// ---- deep trees ------------------------------------------------------------------------------------------
//
// One run in ~1500 builds a tree-backed enumerable container of 200 000 - 262 144 keys inserted in
// descending or ascending order (a red-black tree is then more than 32 levels deep on one side) and
// runs every enumerable function once, judged against the iterator: bounds that were sized for
// "balanced, so 32 levels are enough" show here and nowhere else. No reference model at this size.

func genDeep(r *Rng) *Plan {
	cfg := Cfg{Kind: r.PickS("treeset", "treemap", "treebidimap"), Elem: "int", Cmp: "nat", Mode: "deep",
		Dom: []int{200_000, 262_144}[r.Intn(2)], MapSeed: r.U64()}
	return &Plan{World: "enum-deep", Cfg: cfg, Ops: []Op{{ID: 0, N: "FillSorted", A: []int{cfg.Dom, r.Intn(2)}}, {ID: 1, N: "EnumerateAll", X: 1}}}
}

func execDeep(p *Plan, st *RunStats) *Violation {
	attach(p)
	start := stepCount
	saveLimit := stepLimit
	stepLimit = 1 << 40 // one bulk operation over 262 144 keys legitimately passes more sites than a single call elsewhere
	defer func() { stepLimit, opSteps = saveLimit, 0 }()
	o := NewOracle("C14", "C14")
	o.Kind = p.Cfg.Kind
	n, desc := p.Cfg.Dom, false
	if len(p.Ops) > 0 && len(p.Ops[0].A) == 2 {
		n, desc = p.Ops[0].A[0], p.Ops[0].A[1] == 1
	}
	key := func(i int) int { // i-th inserted key
		if desc {
			return n - i
		}
		return i + 1
	}
	val := func(k int) string { return "v" + strconv.Itoa(k%97) }
	safely(o, Op{ID: 1, N: "EnumerateAll"}, func() {
		o.cur = Op{ID: 1, N: "EnumerateAll"}
		fail := func(what string, args ...any) {
			o.Fail("C14", "deep-"+what, "tree of %d keys inserted %s: "+fmt.Sprintf(what+": ", args...), n, map[bool]string{true: "descending", false: "ascending"}[desc])
		}
		switch p.Cfg.Kind {
		case "treeset":
			s := treeset.New[int]()
			for i := 0; i < n; i++ {
				s.Add(key(i))
			}
			cnt, bad := 0, -1
			s.Each(func(i int, v int) {
				if (i != cnt || v != cnt+1) && bad < 0 {
					bad = cnt
				}
				cnt++
			})
			if cnt != n || bad >= 0 {
				fail("Each visited %d elements (first wrong at %d)", cnt, bad)
			}
			if s.Any(func(int, int) bool { return false }) || !s.All(func(int, int) bool { return true }) {
				fail("Any(false)/All(true) wrong")
			}
			if i, v := s.Find(func(_ int, v int) bool { return v == n }); i != n-1 || v != n {
				fail("Find(last) = (%d,%d)", i, v)
			}
			if sel := s.Select(func(_ int, v int) bool { return v%1000 == 0 }); sel.Size() != n/1000 {
				fail("Select kept %d elements, want %d", sel.Size(), n/1000)
			}
			if m := s.Map(func(_ int, v int) int { return v / 2 }); m.Size() != n/2+1 {
				fail("Map(v/2) has %d elements, want %d", m.Size(), n/2+1)
			}
			if s.Size() != n {
				fail("receiver size changed to %d", s.Size())
			}
		case "treemap":
			m := treemap.New[int, string]()
			for i := 0; i < n; i++ {
				m.Put(key(i), val(key(i)))
			}
			cnt, bad := 0, -1
			m.Each(func(k int, v string) {
				if (k != cnt+1 || v != val(k)) && bad < 0 {
					bad = cnt
				}
				cnt++
			})
			if cnt != n || bad >= 0 {
				fail("Each visited %d pairs (first wrong at %d)", cnt, bad)
			}
			if m.Any(func(int, string) bool { return false }) || !m.All(func(int, string) bool { return true }) {
				fail("Any(false)/All(true) wrong")
			}
			if k, v := m.Find(func(k int, _ string) bool { return k == n }); k != n || v != val(n) {
				fail("Find(last) = (%d,%q)", k, v)
			}
			if sel := m.Select(func(k int, _ string) bool { return k%1000 == 0 }); sel.Size() != n/1000 {
				fail("Select kept %d pairs, want %d", sel.Size(), n/1000)
			}
			if mm := m.Map(func(k int, v string) (int, string) { return k / 2, v }); mm.Size() != n/2+1 {
				fail("Map(k/2) has %d pairs, want %d", mm.Size(), n/2+1)
			}
			if m.Size() != n {
				fail("receiver size changed to %d", m.Size())
			}
		default:
			m := treebidimap.New[int, int]()
			for i := 0; i < n; i++ {
				m.Put(key(i), -key(i))
			}
			cnt, bad := 0, -1
			m.Each(func(k int, v int) {
				if (k != cnt+1 || v != -k) && bad < 0 {
					bad = cnt
				}
				cnt++
			})
			if cnt != n || bad >= 0 {
				fail("Each visited %d pairs (first wrong at %d)", cnt, bad)
			}
			if m.Any(func(int, int) bool { return false }) || !m.All(func(int, int) bool { return true }) {
				fail("Any(false)/All(true) wrong")
			}
			if k, v := m.Find(func(k int, _ int) bool { return k == n }); k != n || v != -n {
				fail("Find(last) = (%d,%d)", k, v)
			}
			if sel := m.Select(func(k int, _ int) bool { return k%1000 == 0 }); sel.Size() != n/1000 {
				fail("Select kept %d pairs, want %d", sel.Size(), n/1000)
			}
			if mm := m.Map(func(k int, v int) (int, int) { return k / 2, v / 2 }); mm.Size() != n/2+1 {
				fail("Map(k/2,v/2) has %d pairs, want %d", mm.Size(), n/2+1)
			}
			if m.Size() != n {
				fail("receiver size changed to %d", m.Size())
			}
		}
	})
	st.Ops = 2
	st.Steps = stepCount - start
	st.MaxSize = n
	st.Probe("deep-tree-run")
	return o.V
}
