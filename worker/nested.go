package main

import (
	"cmp"
	"encoding/json"
	"fmt"
	"math"
	"slices"
	"strconv"
	"strings"

	"github.com/emirpasic/gods/v2/containers"
	"github.com/emirpasic/gods/v2/lists/arraylist"
	"github.com/emirpasic/gods/v2/lists/doublylinkedlist"
	"github.com/emirpasic/gods/v2/lists/singlylinkedlist"
	"github.com/emirpasic/gods/v2/maps"
	"github.com/emirpasic/gods/v2/maps/linkedhashmap"
	"github.com/emirpasic/gods/v2/maps/treemap"
	"github.com/emirpasic/gods/v2/queues/arrayqueue"
	"github.com/emirpasic/gods/v2/queues/circularbuffer"
	"github.com/emirpasic/gods/v2/queues/linkedlistqueue"
	"github.com/emirpasic/gods/v2/queues/priorityqueue"
	"github.com/emirpasic/gods/v2/sets/hashset"
	"github.com/emirpasic/gods/v2/sets/treeset"
	"github.com/emirpasic/gods/v2/trees/binaryheap"
	"github.com/emirpasic/gods/v2/sets/linkedhashset"
	"github.com/emirpasic/gods/v2/stacks/arraystack"
	"github.com/emirpasic/gods/v2/stacks/linkedliststack"
)

// Containers as values of containers. Every container implements json.Marshaler, so a container whose
// values are containers (of the same or another kind) serialises recursively: the ToJSON of the outer
// one runs the ToJSON of the inner ones while it is still in progress.

// nestedValues returns containers (pointers, in deterministic-order kinds) to be used as values.
func nestedValues(i int) []any {
	inner := linkedhashmap.New[string, int]()
	inner.Put("a", i)
	inner.Put("}", 2)
	list := arraylist.New[int](1, i)
	set := linkedhashset.New[string]("x", "y")
	tree := treemap.New[string, int]()
	tree.Put("k", i)
	lvl2 := linkedhashmap.New[string, any]()
	lvl2.Put("in", inner)
	lvl2.Put("l", list)
	empty := linkedhashmap.New[string, int]()
	return []any{inner, list, set, tree, lvl2, empty}
}

func mkNested(i int) any {
	vs := nestedValues(i)
	return vs[i%len(vs)]
}

// nestedProbe (C17): outer containers of every ordered kind over `any`, holding containers, are
// serialised and printed. Nothing is compared: the monitors of the hostile world (panic, termination,
// output) apply, and a call that blocks for ever stops the process (Go's deadlock detector), which the
// driver reports from the run's plan.
func nestedProbe(o *Oracle, i int) {
	vals := nestedValues(i)
	var outers []any
	for _, kind := range []string{"hashmap", "treemap", "linkedhashmap", "redblacktree", "avltree", "btree"} {
		m := newKVV[string, any](kind, 3+i%3, func(a, b string) int {
			switch {
			case a < b:
				return -1
			case a > b:
				return 1
			}
			return 0
		})
		for j, v := range vals {
			m.Put("k"+string(rune('a'+j)), v)
		}
		outers = append(outers, m)
	}
	outers = append(outers,
		arraylist.New[any](vals...), doublylinkedlist.New[any](vals...), singlylinkedlist.New[any](vals...),
		linkedhashset.New[any](vals...))
	st, st2 := arraystack.New[any](), linkedliststack.New[any]()
	q, q2, ring := arrayqueue.New[any](), linkedlistqueue.New[any](), circularbuffer.New[any](4)
	for _, v := range vals {
		st.Push(v)
		st2.Push(v)
		q.Enqueue(v)
		q2.Enqueue(v)
		ring.Enqueue(v)
	}
	outers = append(outers, st, st2, q, q2, ring)
	for _, c := range outers {
		c.(jsonIO).ToJSON()
		json.Marshal(c)
		_ = c.(fmt.Stringer).String()
		_ = c.(containers.Container[any]).Values()
	}
	pointerValuesProbe(o, i)
}

// sval: a value type whose String method is on the pointer receiver and dereferences it. fmt prints a nil
// *sval as <nil> (it guards Stringer calls on nil receivers); containers of such pointers, holding nil,
// are printed, serialised and searched by nestedProbe.
type sval struct{ X int }

type nilReceiver struct{}

func (s *sval) String() string {
	if s == nil {
		panic(nilReceiver{}) // (what a dereference would do; fmt recovers from it and prints <nil>)
	}
	return "sval" + strconv.Itoa(s.X)
}

func pointerValuesProbe(o *Oracle, i int) {
	defer func() {
		if r := recover(); r != nil {
			if _, ok := r.(nilReceiver); !ok {
				panic(r)
			}
			o.Fail("C17", "panic", "a container holding a nil pointer whose type has a pointer-receiver String method: String()/ToJSON() called that method on the nil pointer outside fmt's guard (a method that dereferences its receiver panics)")
		}
	}()
	vals := []*sval{{X: i}, nil, {X: 2}, nil}
	var outers []any
	for _, kind := range []string{"hashmap", "treemap", "linkedhashmap", "redblacktree", "avltree", "btree"} {
		m := newKVV[string, *sval](kind, 3+i%3, strings.Compare)
		for j, v := range vals {
			m.Put("k"+string(rune('a'+j)), v)
		}
		m.Get("kb")
		outers = append(outers, m)
	}
	l1, l2, l3 := arraylist.New[*sval](vals...), doublylinkedlist.New[*sval](vals...), singlylinkedlist.New[*sval](vals...)
	for _, l := range []interface {
		Contains(...*sval) bool
		IndexOf(*sval) int
	}{l1, l2, l3} {
		l.Contains(nil)
		l.IndexOf(nil)
		l.IndexOf(vals[2])
	}
	hs := linkedhashset.New[*sval](vals...)
	hs.Contains(nil)
	st, q, ring := arraystack.New[*sval](), linkedlistqueue.New[*sval](), circularbuffer.New[*sval](3)
	for _, v := range vals {
		st.Push(v)
		q.Enqueue(v)
		ring.Enqueue(v)
	}
	outers = append(outers, l1, l2, l3, hs, st, q, ring)
	for _, c := range outers {
		c.(jsonIO).ToJSON()
		_ = c.(fmt.Stringer).String()
	}
}

// cm: an element type whose JSON methods are on the pointer receiver (encoding/json uses them for
// addressable values only: slice elements are, boxed copies and map values are not).
type cm struct{ A int }

func (c *cm) MarshalJSON() ([]byte, error) { return []byte(`"cm:` + strconv.Itoa(c.A) + `"`), nil }
func (c *cm) UnmarshalJSON(b []byte) error {
	var s string
	if err := json.Unmarshal(b, &s); err != nil {
		return err
	}
	if !strings.HasPrefix(s, "cm:") {
		return fmt.Errorf("not a cm: %q", s)
	}
	n, err := strconv.Atoi(s[3:])
	c.A = n
	return err
}

type cmContainer interface {
	containers.Container[cm]
	jsonIO
}

// customMarshalerProbe (C11): every value container over cm elements must write what json.Marshal writes
// for the slice of its values (the elements' own MarshalJSON) and read it back into an equal container.
func customMarshalerProbe(o *Oracle, salt int) {
	byA := func(a, b cm) int { return a.A - b.A }
	mk := map[string]func() (cmContainer, func(cm)){
		"arraylist":        func() (cmContainer, func(cm)) { c := arraylist.New[cm](); return c, func(v cm) { c.Add(v) } },
		"singlylinkedlist": func() (cmContainer, func(cm)) { c := singlylinkedlist.New[cm](); return c, func(v cm) { c.Add(v) } },
		"doublylinkedlist": func() (cmContainer, func(cm)) { c := doublylinkedlist.New[cm](); return c, func(v cm) { c.Add(v) } },
		"hashset":          func() (cmContainer, func(cm)) { c := hashset.New[cm](); return c, func(v cm) { c.Add(v) } },
		"linkedhashset":    func() (cmContainer, func(cm)) { c := linkedhashset.New[cm](); return c, func(v cm) { c.Add(v) } },
		"treeset":          func() (cmContainer, func(cm)) { c := treeset.NewWith[cm](byA); return c, func(v cm) { c.Add(v) } },
		"arraystack":       func() (cmContainer, func(cm)) { c := arraystack.New[cm](); return c, c.Push },
		"linkedliststack":  func() (cmContainer, func(cm)) { c := linkedliststack.New[cm](); return c, c.Push },
		"arrayqueue":       func() (cmContainer, func(cm)) { c := arrayqueue.New[cm](); return c, c.Enqueue },
		"linkedlistqueue":  func() (cmContainer, func(cm)) { c := linkedlistqueue.New[cm](); return c, c.Enqueue },
		"circularbuffer":   func() (cmContainer, func(cm)) { c := circularbuffer.New[cm](8); return c, c.Enqueue },
		"binaryheap":       func() (cmContainer, func(cm)) { c := binaryheap.NewWith[cm](byA); return c, func(v cm) { c.Push(v) } },
		"priorityqueue":    func() (cmContainer, func(cm)) { c := priorityqueue.NewWith[cm](byA); return c, c.Enqueue },
	}
	for _, kind := range sortedKeys(mk) {
		c, add := mk[kind]()
		n := 1 + derive(salt, 3, 5)
		for i := 0; i < n; i++ {
			add(cm{A: derive(salt, 10+i, 50)})
		}
		o.Kind = kind
		b, err := c.ToJSON()
		if err != nil || !json.Valid(b) || topKind(b) != "array" {
			o.Fail("C11", "custom-marshaler-tojson", "%s of elements with pointer-receiver JSON methods: ToJSON gives %s, %v", kind, b, err)
			return
		}
		vals := c.Values()
		want, _ := json.Marshal(vals)
		mb, err := json.Marshal(c)
		if err != nil || !sameDocument(b, mb, kind == "hashset") {
			o.Fail("C11", "marshal-differs", "%s of elements with pointer-receiver JSON methods: ToJSON %s, json.Marshal(container) %s (%v)", kind, b, mb, err)
			return
		}
		if unordered := kind == "hashset" || kind == "arraystack" || kind == "linkedliststack" || kind == "binaryheap" || kind == "priorityqueue"; !sameDocument(b, want, unordered) {
			// (the stacks write their own orientation, the heaps their array, the hash set any order: multisets there)
			o.Fail("C11", "custom-marshaler-tojson", "%s: ToJSON %s, json.Marshal(Values()) %s: the elements' own MarshalJSON was not used", kind, b, want)
			return
		}
		f, _ := mk[kind]()
		if err := loadVariantRaw(f, salt, b); err != nil {
			o.Fail("C11", "restart-load-error", "%s of elements with pointer-receiver JSON methods: loading its own ToJSON output %s failed: %v", kind, b, err)
			return
		}
		g, w := fmt.Sprint(f.Values()), fmt.Sprint(vals)
		if kind == "hashset" {
			gs, ws := slices.Clone(f.Values()), slices.Clone(vals)
			slices.SortFunc(gs, byA)
			slices.SortFunc(ws, byA)
			g, w = fmt.Sprint(gs), fmt.Sprint(ws)
		}
		if g != w || f.Size() != c.Size() {
			o.Fail("C11", "restart-content", "%s of elements with pointer-receiver JSON methods: reloading %s gives %s, want %s", kind, b, g, w)
			return
		}
	}
}

func loadVariantRaw(c jsonIO, variant int, b []byte) error {
	switch variant % 3 {
	case 0:
		return c.FromJSON(b)
	case 1:
		return c.UnmarshalJSON(b)
	}
	return json.Unmarshal(b, c)
}

// level: a named integer key type with a String method. encoding/json writes such map keys as numbers in
// quotes ("0"), not through String(); a container's ToJSON must do the same, or its own output will not load.
type level int

func (l level) String() string { return "L" + strconv.Itoa(int(l)) }

func stringerKeyProbe(o *Oracle, salt int) {
	for _, kind := range []string{"hashmap", "treemap", "linkedhashmap", "redblacktree", "avltree", "btree"} {
		if o.Failed() {
			return
		}
		o.Kind = kind
		mk := func() maps.Map[level, string] {
			return newKVV[level, string](kind, 3+salt%3, func(a, b level) int { return int(a) - int(b) })
		}
		m := mk()
		n := 2 + derive(salt, 7, 5)
		want := map[level]string{}
		for i := 0; i < n; i++ {
			k := level(derive(salt, 20+i, 40) - 5)
			m.Put(k, "v"+strconv.Itoa(i))
			want[k] = "v" + strconv.Itoa(i)
		}
		b, err := m.(jsonIO).ToJSON()
		ref, _ := json.Marshal(want)
		if err != nil || !json.Valid(b) || !sameDocument(b, ref, true) {
			o.Fail("C11", "stringer-keys", "%s over a named int key type with a String method: ToJSON gives %s (%v), json.Marshal of the same pairs %s", kind, b, err, ref)
			return
		}
		f := mk()
		if err := loadVariantRaw(f.(jsonIO), salt, b); err != nil {
			o.Fail("C11", "restart-load-error", "%s over a named int key type with a String method: loading its own ToJSON output %s failed: %v", kind, b, err)
			return
		}
		for k, v := range want {
			if g, ok := f.Get(k); !ok || g != v || f.Size() != len(want) {
				o.Fail("C11", "restart-content", "%s over a named int key type with a String method: after reloading %s Get(%d)=(%q,%v), Size()=%d, want (%q,true), %d", kind, b, int(k), g, ok, f.Size(), v, len(want))
				return
			}
		}
	}
}

// tkey: a string key type that reads its text form case-insensitively (a log level, an enum, a normalised name).
// encoding/json gives such map keys precedence over their kind: every member name goes through UnmarshalText.
// A document written by hand or by another program may spell the names any way; what it denotes is what
// encoding/json makes of it.
type tkey string

func (k tkey) MarshalText() ([]byte, error) { return []byte(strings.ToUpper(string(k))), nil }
func (k *tkey) UnmarshalText(b []byte) error {
	*k = tkey(strings.ToUpper(string(b)))
	return nil
}

// textKeyProbe (C12): a document with freely spelled member names is loaded onto a used map of every key-value
// kind keyed by tkey; the content afterwards is what the reference decoder (encoding/json into map[tkey]string)
// says the document denotes, and nothing of the prior content survives.
func textKeyProbe(o *Oracle, salt int) {
	names := []string{"warn", "Info", "ERROR", "dbg", "Trace", "fatal", "oFF"}
	for _, kind := range []string{"hashmap", "treemap", "linkedhashmap", "redblacktree", "avltree", "btree"} {
		if o.Failed() {
			return
		}
		o.Kind = kind
		m := newKVV[tkey, string](kind, 3+salt%3, func(a, b tkey) int { return strings.Compare(string(a), string(b)) })
		m.Put("OLD", "x")
		m.Put("WARN", "y")
		if salt%5 == 0 {
			m.Clear()
		}
		n := 1 + derive(salt, 7, 5)
		var sb strings.Builder
		sb.WriteByte('{')
		var order []tkey
		collide := derive(salt, 8, 3) == 0
		for i := 0; i < n; i++ {
			name := names[(derive(salt, 9, len(names))+i)%len(names)]
			if collide && i == n-1 && n > 1 {
				name = strings.ToLower(names[derive(salt, 9, len(names))%len(names)]) + "" // the first member again, spelled otherwise
				if name == names[derive(salt, 9, len(names))%len(names)] {
					name = strings.ToUpper(name)
				}
			} else {
				order = append(order, tkey(strings.ToUpper(name)))
			}
			if i > 0 {
				sb.WriteByte(',')
			}
			sb.Write(mustJSON(name))
			sb.WriteByte(':')
			sb.Write(mustJSON("v" + strconv.Itoa(i)))
		}
		sb.WriteByte('}')
		doc := []byte(sb.String())
		ref := map[tkey]string{}
		if err := json.Unmarshal(doc, &ref); err != nil {
			panic(harnessBug{fmt.Sprintf("textKeyProbe: reference decoder rejects %s: %v", doc, err)})
		}
		before := fmt.Sprint(m.Keys(), m.Values())
		if err := loadVariantRaw(m.(jsonIO), salt, doc); err != nil {
			if after := fmt.Sprint(m.Keys(), m.Values()); after != before && kind != "hashmap" {
				o.Fail("C12", "error-not-atomic", "%s keyed by a text-unmarshalling string type: loading %s failed (%v) and changed the map: %s -> %s", kind, doc, err, before, after)
			}
			o.Unjudged("C12 text-key document rejected")
			continue
		}
		bad := m.Size() != len(ref) || len(m.Keys()) != len(ref)
		for k, v := range ref {
			if g, ok := m.Get(k); !ok || g != v {
				bad = true
			}
		}
		for _, k := range m.Keys() {
			if _, ok := ref[k]; !ok {
				bad = true
			}
		}
		if bad {
			o.Fail("C12", "loaded-content", "%s keyed by a string type that reads its text form case-insensitively: after loading %s onto a map holding %s: Size()=%d Keys()=%v Values()=%v, the document denotes %v", kind, doc, before, m.Size(), m.Keys(), m.Values(), ref)
			return
		}
		if kind == "linkedhashmap" && !collide && !slices.Equal(m.Keys(), order) {
			o.Fail("C12", "loaded-order", "linkedhashmap keyed by a string type that reads its text form case-insensitively: after loading %s Keys()=%v, member order %v", doc, m.Keys(), order)
			return
		}
	}
}

// keyTypeProbe (C11): the key-value kinds over another built-in key type, filled with keys at the ends of the type's
// range: ToJSON writes what json.Marshal writes for the same pairs as a Go map, and a fresh container of the same
// type loads it back to the same pairs.
func keyTypeProbe[K cmp.Ordered](o *Oracle, name string, keys []K, salt int) {
	for _, kind := range []string{"hashmap", "treemap", "linkedhashmap", "redblacktree", "avltree", "btree"} {
		if o.Failed() {
			return
		}
		o.Kind = kind
		mk := func() maps.Map[K, string] { return newKVV[K, string](kind, 3+salt%3, cmp.Compare[K]) }
		m := mk()
		want := map[K]string{}
		n := 1 + derive(salt, 7, len(keys))
		for i := 0; i < n; i++ {
			k := keys[(derive(salt, 8, len(keys))+i)%len(keys)]
			m.Put(k, "v"+strconv.Itoa(i))
			want[k] = "v" + strconv.Itoa(i)
		}
		b, err := m.(jsonIO).ToJSON()
		ref, _ := json.Marshal(want)
		if err != nil || !json.Valid(b) || !sameDocument(b, ref, true) {
			o.Fail("C11", "typed-keys", "%s over %s keys: ToJSON gives %s (%v), json.Marshal of the same pairs %s", kind, name, b, err, ref)
			return
		}
		f := mk()
		if err := loadVariantRaw(f.(jsonIO), salt, b); err != nil {
			o.Fail("C11", "restart-load-error", "%s over %s keys: loading its own ToJSON output %s failed: %v", kind, name, b, err)
			return
		}
		for k, v := range want {
			if g, ok := f.Get(k); !ok || g != v || f.Size() != len(want) {
				o.Fail("C11", "restart-content", "%s over %s keys: after reloading %s Get(%v)=(%q,%v), Size()=%d, want (%q,true), %d", kind, name, b, k, g, ok, f.Size(), v, len(want))
				return
			}
		}
	}
}

func keyTypesProbe(o *Oracle, salt int) {
	keyTypeProbe(o, "uint64", []uint64{math.MaxUint64, 1 << 63, 1<<63 + 12345, 0, 1, 1<<63 - 1, 1 << 32}, salt)
	keyTypeProbe(o, "uint8", []uint8{255, 0, 128, 127, 1}, salt)
	keyTypeProbe(o, "int8", []int8{-128, 127, 0, -1, 1}, salt)
	keyTypeProbe(o, "int64", []int64{math.MinInt64, math.MaxInt64, 0, -1, 1 << 53, -(1 << 53) - 1}, salt)
	keyTypeProbe(o, "uint", []uint{math.MaxUint, 1 << 63, 0, 7}, salt)
}
