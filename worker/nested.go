package main

import (
	"encoding/json"
	"fmt"

	"github.com/emirpasic/gods/v2/containers"
	"github.com/emirpasic/gods/v2/lists/arraylist"
	"github.com/emirpasic/gods/v2/lists/doublylinkedlist"
	"github.com/emirpasic/gods/v2/lists/singlylinkedlist"
	"github.com/emirpasic/gods/v2/maps/linkedhashmap"
	"github.com/emirpasic/gods/v2/maps/treemap"
	"github.com/emirpasic/gods/v2/queues/arrayqueue"
	"github.com/emirpasic/gods/v2/queues/circularbuffer"
	"github.com/emirpasic/gods/v2/queues/linkedlistqueue"
	"github.com/emirpasic/gods/v2/sets/linkedhashset"
	"github.com/emirpasic/gods/v2/stacks/arraystack"
	"github.com/emirpasic/gods/v2/stacks/linkedliststack"
)

// Containers as values of containers. Every container implements json.Marshaler, so a container whose
// values are containers (of the same or another kind) serialises recursively: the ToJSON of the outer
// one runs the ToJSON of the inner ones while it is still in progress.

// nestedValues returns containers (pointers, in deterministic-order kinds) to be used as values.
func nestedValues(i int) []any {
	inner := linkedhashmap.New[string, int]()
	inner.Put("a", i)
	inner.Put("}", 2)
	list := arraylist.New[int](1, i)
	set := linkedhashset.New[string]("x", "y")
	tree := treemap.New[string, int]()
	tree.Put("k", i)
	lvl2 := linkedhashmap.New[string, any]()
	lvl2.Put("in", inner)
	lvl2.Put("l", list)
	empty := linkedhashmap.New[string, int]()
	return []any{inner, list, set, tree, lvl2, empty}
}

func mkNested(i int) any {
	vs := nestedValues(i)
	return vs[i%len(vs)]
}

// nestedProbe (C17): outer containers of every ordered kind over `any`, holding containers, are
// serialised and printed. Nothing is compared: the monitors of the hostile world (panic, termination,
// output) apply, and a call that blocks for ever stops the process (Go's deadlock detector), which the
// driver reports from the run's plan.
func nestedProbe(i int) {
	vals := nestedValues(i)
	var outers []any
	for _, kind := range []string{"hashmap", "treemap", "linkedhashmap", "redblacktree", "avltree", "btree"} {
		m := newKVV[string, any](kind, 3+i%3, func(a, b string) int {
			switch {
			case a < b:
				return -1
			case a > b:
				return 1
			}
			return 0
		})
		for j, v := range vals {
			m.Put("k"+string(rune('a'+j)), v)
		}
		outers = append(outers, m)
	}
	outers = append(outers,
		arraylist.New[any](vals...), doublylinkedlist.New[any](vals...), singlylinkedlist.New[any](vals...),
		linkedhashset.New[any](vals...))
	st, st2 := arraystack.New[any](), linkedliststack.New[any]()
	q, q2, ring := arrayqueue.New[any](), linkedlistqueue.New[any](), circularbuffer.New[any](4)
	for _, v := range vals {
		st.Push(v)
		st2.Push(v)
		q.Enqueue(v)
		q2.Enqueue(v)
		ring.Enqueue(v)
	}
	outers = append(outers, st, st2, q, q2, ring)
	for _, c := range outers {
		c.(jsonIO).ToJSON()
		json.Marshal(c)
		_ = c.(fmt.Stringer).String()
		_ = c.(containers.Container[any]).Values()
	}
}
