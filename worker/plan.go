package main

import (
	"encoding/json"
	"fmt"
	"sort"
	"strings"
)

// Op is one scripted operation. Element arguments are indices into the run's element tables,
// positions are raw ints; B carries raw bytes (FromJSON input).
type Op struct {
	ID int    `json:"id"`
	C  int    `json:"c,omitempty"` // issuing client (script role)
	X  int    `json:"x,omitempty"` // target object (second set, iterator number, ...)
	N  string `json:"op"`
	A  []int  `json:"a,omitempty"`
	B  []byte `json:"b,omitempty"`
	T  string `json:"t,omitempty"` // human-readable rendering of B; never read back
}

func (o Op) String() string {
	s := o.N
	if o.X != 0 {
		s = fmt.Sprintf("#%d.%s", o.X, s)
	}
	if len(o.A) > 0 {
		s += fmt.Sprint(o.A)
	}
	if o.B != nil {
		s += fmt.Sprintf("(%q)", string(o.B))
	}
	return s
}

// Cfg is the per-run configuration (swarm knobs).
type Cfg struct {
	Kind    string `json:"kind"`            // container kind
	Elem    string `json:"elem"`            // element / key type: int | string | item
	Cmp     string `json:"cmp,omitempty"`   // (key) comparator
	VCmp    string `json:"vcmp,omitempty"`  // value comparator (TreeBidiMap)
	Order   int    `json:"order,omitempty"` // B-tree order
	Cap     int    `json:"cap,omitempty"`   // ring capacity
	Dom     int    `json:"dom"`             // size of the element table
	VDom    int    `json:"vdom,omitempty"`  // size of the value table (bidi maps)
	MapSeed uint64 `json:"mapseed"`         // seed of the map-iteration permutations (S3)
	Ctor    string `json:"ctor,omitempty"`  // "default": built with New (the package's default comparator) instead of NewWith
	Mode    string `json:"mode,omitempty"`  // world-specific mode
	Strat   string `json:"strat,omitempty"` // interleaving strategy
	SwitchP int    `json:"switchp,omitempty"`
	NoNaN   bool   `json:"nonan,omitempty"` // float elements without NaN (hash-based kinds outside the C15 world)
	Skip    int    `json:"skip,omitempty"`  // > 1: the harness observes the container only after about every Skip-th step
	Pool    int    `json:"pool,omitempty"` // version of the special-value pools the element tables are drawn from
}

type Fault struct {
	Kind string `json:"kind"`
	At   int    `json:"at"` // op id the fault is attached to
	A    []int  `json:"a,omitempty"`
}

type Plan struct {
	Property  string     `json:"property"`
	Seed      uint64     `json:"seed"`
	World     string     `json:"world"`
	Cfg       Cfg        `json:"config"`
	Clients   []string   `json:"clients,omitempty"` // role of each client script
	Ops       []Op       `json:"ops"`               // the history (clients interleaved by the scheduler)
	Readers   [][]Op     `json:"readers,omitempty"` // C18: concurrent reader scripts
	SchedSeed uint64     `json:"schedseed,omitempty"`
	Faults    []Fault    `json:"faults,omitempty"`
	Violation *Violation `json:"violation,omitempty"`
	Minimised bool       `json:"minimised,omitempty"`
	Note      string     `json:"note,omitempty"`
	// Warmup: plans replayed (results ignored, garbage collection off) before this one: the runs that preceded it in
	// the worker process, kept only when the failure depends on state the library leaves in the process
	Warmup []*Plan `json:"warmup,omitempty"`
}

func (p *Plan) Clone() *Plan {
	q := *p
	q.Ops = append([]Op(nil), p.Ops...)
	q.Readers = make([][]Op, len(p.Readers))
	for i := range p.Readers {
		q.Readers[i] = append([]Op(nil), p.Readers[i]...)
	}
	q.Faults = append([]Fault(nil), p.Faults...)
	q.Violation = nil
	return &q
}

func (p *Plan) Hash() uint64 {
	b, _ := json.Marshal(struct {
		W string
		C Cfg
		O []Op
		R [][]Op
		S uint64
		F []Fault
	}{p.World, p.Cfg, p.Ops, p.Readers, p.SchedSeed, p.Faults})
	return hashStr(string(b))
}

// Violation describes one failed oracle. Class() is what minimisation and the fresh-process
// confirmation must reproduce.
type Violation struct {
	Property string `json:"property"`
	Oracle   string `json:"oracle"` // e.g. C03/values
	Kind     string `json:"kind"`   // container kind
	OpName   string `json:"op"`     // operation at which it was detected
	OpID     int    `json:"op_id"`
	Msg      string `json:"message"`
	Race     string `json:"race_report,omitempty"`
}

func (v *Violation) Class() string {
	return v.Property + "|" + v.Oracle + "|" + v.Kind
}

// Signature identifies a finding in known_findings.json.
func (v *Violation) Signature() string {
	return v.Property + "|" + v.Kind + "|" + v.OpName + "|" + v.Oracle
}

// Oracle collects the first violation of a run. Checks are tagged with the property they belong
// to and are evaluated only if that property is active, so attribution stays exact.
type Oracle struct {
	Report string          // property id violations are reported under
	Active map[string]bool // tags whose checks are evaluated
	Kind   string
	cur    Op
	V      *Violation
	Unj    map[string]int // deliberately unjudged cases, counted
	// Sparse: the state comparison after a step (O(table size)) is skipped for this step; used by the
	// large-size runs, which compare every 16th step and at the end.
	Sparse bool
}

func NewOracle(report string, tags ...string) *Oracle {
	o := &Oracle{Report: report, Active: map[string]bool{}, Unj: map[string]int{}}
	for _, t := range tags {
		o.Active[t] = true
	}
	return o
}

func (o *Oracle) On(tag string) bool { return o.V == nil && o.Active[tag] }

func (o *Oracle) Failed() bool { return o.V != nil }

func (o *Oracle) Fail(tag, id, format string, args ...any) {
	if o.V != nil || !o.Active[tag] {
		return
	}
	msg := fmt.Sprintf(format, args...)
	if len(msg) > 1200 {
		msg = msg[:1200] + "…"
	}
	o.V = &Violation{Property: o.Report, Oracle: tag + "/" + id, Kind: o.Kind, OpName: o.cur.N, OpID: o.cur.ID, Msg: msg}
}

func (o *Oracle) Eq(tag, id string, got, want any) {
	if o.V != nil || !o.Active[tag] {
		return
	}
	g, w := fmt.Sprint(got), fmt.Sprint(want)
	if g != w {
		o.Fail(tag, id, "after %s: got %s, want %s", o.cur, g, w)
	}
}

func (o *Oracle) Unjudged(what string) { o.Unj[what]++ }

// Stats of one run, streamed to the driver.
type RunStats struct {
	Steps      int64          `json:"steps"` // yield sites passed = simulated time
	Ops        int            `json:"ops"`
	Switches   int            `json:"switches,omitempty"`
	SchedHash  uint64         `json:"sched_hash,omitempty"`
	Faults     map[string]int `json:"faults,omitempty"`
	Unjudged   map[string]int `json:"unjudged,omitempty"`
	States     []uint64       `json:"-"`
	Probes     map[string]int `json:"probes,omitempty"`
	NonTrivial bool           `json:"nontrivial"`
	MaxSize    int            `json:"max_size,omitempty"`
}

func (s *RunStats) Fault(kind string) {
	if s.Faults == nil {
		s.Faults = map[string]int{}
	}
	s.Faults[kind]++
}

func (s *RunStats) Probe(name string) {
	if s.Probes == nil {
		s.Probes = map[string]int{}
	}
	s.Probes[name]++
}

func sortedKeys[V any](m map[string]V) []string {
	ks := make([]string, 0, len(m))
	for k := range m {
		ks = append(ks, k)
	}
	sort.Strings(ks)
	return ks
}

func opsString(ops []Op) string {
	var sb strings.Builder
	for i, o := range ops {
		if i > 0 {
			sb.WriteString("; ")
		}
		sb.WriteString(o.String())
	}
	return sb.String()
}
