package main

import (
	"fmt"
	"slices"
)

func familyOf(kind string) string {
	switch {
	case slices.Contains(listKinds, kind):
		return "list"
	case slices.Contains(setKinds, kind):
		return "set"
	case slices.Contains(sqKinds, kind):
		return "sq"
	case slices.Contains(heapKinds, kind):
		return "heap"
	case slices.Contains(kvKinds, kind):
		return "kv"
	}
	panic("unknown kind " + kind)
}

var allKinds = func() []string {
	var k []string
	k = append(k, listKinds...)
	k = append(k, setKinds...)
	k = append(k, sqKinds...)
	k = append(k, heapKinds...)
	k = append(k, kvKinds...)
	return k
}()

func usesCmp(kind string) bool {
	switch kind {
	case "treeset", "binaryheap", "priorityqueue", "treemap", "redblacktree", "avltree", "btree", "treebidimap":
		return true
	case "arraylist", "singlylinkedlist", "doublylinkedlist":
		return true // Sort(comparator)
	}
	return false
}

// keyTextDom is the value table of non-bidirectional maps: values whose text equals keys.
func keyTextDom[K comparable](d *Dom[K]) *Dom[string] {
	vd := strDom(1, "nat", 0)
	vd.Tab = nil
	for _, k := range d.Tab {
		vd.Tab = append(vd.Tab, fmt.Sprint(k))
		if len(vd.Tab) < 24 {
			vd.Tab = append(vd.Tab, fmt.Sprintf("%q:", fmt.Sprint(k)), fmt.Sprintf("%q", fmt.Sprint(k)))
		}
	}
	return vd
}

func makeKV[K comparable](cfg Cfg, d *Dom[K], count bool) Subject {
	var vd *Dom[string]
	if kvIsBidi(cfg.Kind) {
		n := cfg.VDom
		if n < 2 {
			n = 2
		}
		vd = strDom(n, cfg.VCmp, int(cfg.MapSeed>>8%uint64(len(strPool()))))
	} else {
		vd = keyTextDom(d)
	}
	return newKVSubj(cfg, d, vd, count)
}

// makeSubject constructs the container (through its public constructor) and its model.
func makeSubject(cfg Cfg, count bool) Subject {
	curPool = cfg.Pool
	fam := familyOf(cfg.Kind)
	n := cfg.Dom
	if n < 2 {
		n = 2
	}
	switch cfg.Elem {
	case "int":
		d := intDom(n, cfg.Cmp, int(cfg.MapSeed>>16%uint64(len(intPool()))))
		switch fam {
		case "list":
			return newListSubj(cfg, d)
		case "set":
			return newSetSubj(cfg, d, count)
		case "sq":
			return newSQSubj(cfg, d)
		case "heap":
			return newHeapSubj(cfg, d)
		case "kv":
			return makeKV(cfg, d, count)
		}
	case "string":
		d := strDom(n, cfg.Cmp, int(cfg.MapSeed%uint64(len(strPool()))))
		switch fam {
		case "list":
			return newListSubj(cfg, d)
		case "set":
			return newSetSubj(cfg, d, count)
		case "sq":
			return newSQSubj(cfg, d)
		case "heap":
			return newHeapSubj(cfg, d)
		case "kv":
			return makeKV(cfg, d, count)
		}
	case "float":
		off := int(cfg.MapSeed >> 24 % uint64(len(specialFloats)))
		switch fam {
		case "set":
			return newSetSubj(cfg, floatDom(n, cfg.Cmp, off, cfg.NoNaN), count)
		case "kv":
			return makeKV(cfg, floatDom(n, cfg.Cmp, off, cfg.NoNaN), count)
		case "list":
			return newListSubj(cfg, floatDom(n, cfg.Cmp, off, true))
		case "sq":
			return newSQSubj(cfg, floatDom(n, cfg.Cmp, off, true))
		case "heap":
			return newHeapSubj(cfg, floatDom(n, cfg.Cmp, off, true))
		}
	case "any":
		d := anyDom(n, int(cfg.MapSeed>>40%uint64(len(anyPool))))
		switch fam {
		case "list":
			return newListSubj(cfg, d)
		case "sq":
			return newSQSubj(cfg, d)
		}
	case "item":
		d := itemDom(n, cfg.Cmp)
		switch fam {
		case "list":
			return newListSubj(cfg, d)
		case "set":
			return newSetSubj(cfg, d, count)
		case "sq":
			return newSQSubj(cfg, d)
		case "heap":
			return newHeapSubj(cfg, d)
		}
	}
	panic(fmt.Sprintf("makeSubject: unsupported %s/%s", cfg.Kind, cfg.Elem))
}

// floatOK: the float element type (with NaN) goes with the comparator-based key containers in the
// model-comparing worlds, and with every set/map kind in the C15 world (whose oracles are agreement
// rules, not a model: Go maps never find a NaN key again, which is the hash containers' documented
// behaviour, not a defect).
func floatOK(prop, kind string) bool {
	switch kind {
	case "treemap", "redblacktree", "avltree", "btree", "treebidimap", "treeset":
		return true
	case "binaryheap", "priorityqueue", "arraylist", "singlylinkedlist", "doublylinkedlist",
		"arraystack", "linkedliststack", "arrayqueue", "linkedlistqueue", "circularbuffer":
		// floats without NaN (these families' models compare with ==); not in the persistence worlds (Inf)
		return prop != "C11" && prop != "C12"
	case "hashset", "linkedhashset", "hashmap", "linkedhashmap":
		// (not HashBidiMap: with a NaN key its two Go maps drift apart, which is Go map semantics on a
		// key that is not equal to itself, outside any documented use)
		// C14: floats without NaN (Cfg.NoNaN): -0 and +0 are one key with two renderings
		return prop == "C15" || prop == "C14" && (kind == "linkedhashset" || kind == "linkedhashmap")
	}
	return false
}

// useFloat switches a drawn configuration to float elements.
func useFloat(r *Rng, cfg *Cfg) {
	cfg.Elem = "float"
	cfg.Cmp = r.PickS("nat", "nat", "rev", "total")
	cfg.Ctor = ""
	if cfg.Kind == "treebidimap" {
		cfg.VCmp = r.PickS("nat", "rev")
	}
	if !usesCmp(cfg.Kind) {
		cfg.Cmp = "nat"
	}
	if usesCmp(cfg.Kind) && familyOf(cfg.Kind) != "list" && cfg.Cmp == "nat" && (cfg.VCmp == "" || cfg.VCmp == "nat") && r.Bool() {
		cfg.Ctor = "default"
	}
}

// genCfg draws the swarm configuration of one run.
func genCfg(r *Rng, kinds []string, tier string) Cfg {
	cfg := Cfg{Kind: kinds[r.Intn(len(kinds))]}
	fam := familyOf(cfg.Kind)
	if fam == "kv" {
		cfg.Elem = r.PickS("int", "int", "string")
	} else {
		cfg.Elem = r.PickS("int", "int", "string", "item")
	}
	if usesCmp(cfg.Kind) {
		cs := cmpsFor(cfg.Elem)
		cfg.Cmp = cs[[]int{0, 0, 0, 0, 0, 1, 1, 2, 2, 3, 3, 4, 4, 5, 5, 6}[r.Intn(16)]%len(cs)]
	} else {
		cfg.Cmp = "nat"
	}
	if cfg.Kind == "treebidimap" {
		cfg.VCmp = strCmps[r.Weighted(5, 2, 2, 2, 2, 2, 1)]
	}
	if cfg.Kind == "btree" {
		cfg.Order = []int{3, 3, 3, 4, 4, 5, 5, 6, 7, 8, 9, 10, 11, 12, 16, 17, 32, 48, 64, 100, 256, 300, 1024}[r.Intn(23)]
	}
	if cfg.Kind == "circularbuffer" {
		cfg.Cap = []int{1, 1, 2, 2, 3, 3, 4, 5, 6, 9}[r.Intn(10)]
	}
	cfg.Dom = []int{4, 6, 8, 8, 12, 16, 16, 24, 32, 64}[r.Intn(10)]
	if tier == "thorough" && r.P(1, 6) {
		cfg.Dom = []int{96, 128, 256, 512}[r.Intn(4)]
	}
	if kvIsBidi(cfg.Kind) {
		cfg.VDom = r.Range(2, 9) // small: every collision kind comes up
		if r.P(1, 3) {
			cfg.VDom = r.Range(16, 64) // large: the map (a bijection: at most VDom pairs) grows trees several levels deep
		}
	}
	cfg.MapSeed = r.U64()
	cfg.Pool = 2
	if usesCmp(cfg.Kind) && familyOf(cfg.Kind) != "list" && cfg.Cmp == "nat" && (cfg.VCmp == "" || cfg.VCmp == "nat") && cfg.Elem != "item" && r.Bool() {
		cfg.Ctor = "default" // New(): the default comparator path
	}
	return cfg
}
