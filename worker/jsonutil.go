package main

import (
	"bytes"
	"encoding/json"
	"fmt"
	"io"
	"sort"
	"strconv"
	"strings"
)

// objectKeyOrder returns the member names of a top-level JSON object in document order.
func objectKeyOrder(b []byte) ([]string, bool) {
	if !json.Valid(b) {
		return nil, false
	}
	dec := json.NewDecoder(bytes.NewReader(b))
	t, err := dec.Token()
	if err != nil || t != json.Delim('{') {
		return nil, false
	}
	var keys []string
	for dec.More() {
		kt, err := dec.Token()
		if err != nil {
			return nil, false
		}
		k, ok := kt.(string)
		if !ok {
			return nil, false
		}
		keys = append(keys, k)
		var skip json.RawMessage
		if err := dec.Decode(&skip); err != nil {
			return nil, false
		}
	}
	return keys, true
}

// tokens returns the JSON token sequence of a document (whitespace and escape style do not
// matter); ok=false when the document is not exactly one valid JSON value.
func jsonTokens(b []byte) ([]string, bool) {
	if !json.Valid(b) {
		return nil, false
	}
	dec := json.NewDecoder(bytes.NewReader(b))
	dec.UseNumber()
	var out []string
	for {
		t, err := dec.Token()
		if err == io.EOF {
			break
		}
		if err != nil {
			return nil, false
		}
		switch x := t.(type) {
		case json.Delim:
			out = append(out, string(x))
		case string:
			out = append(out, strconv.Quote(x))
		case json.Number:
			out = append(out, "n"+x.String())
		case nil:
			out = append(out, "null")
		default:
			out = append(out, fmt.Sprint(x))
		}
	}
	return out, true
}

// topKind reports the kind of the top-level JSON value: "array", "object", "null", "other" or
// "invalid".
func topKind(b []byte) string {
	if !json.Valid(b) {
		return "invalid"
	}
	t := bytes.TrimSpace(b)
	if len(t) == 0 {
		return "invalid"
	}
	switch t[0] {
	case '[':
		return "array"
	case '{':
		return "object"
	case 'n':
		return "null"
	}
	return "other"
}

// arrayElems returns the raw elements of a top-level array, each re-encoded canonically.
func arrayElems(b []byte) ([]string, bool) {
	var raw []json.RawMessage
	if err := json.Unmarshal(b, &raw); err != nil {
		return nil, false
	}
	out := make([]string, len(raw))
	for i, r := range raw {
		t, ok := jsonTokens(r)
		if !ok {
			return nil, false
		}
		out[i] = strings.Join(t, "")
	}
	return out, true
}

// sameDocument compares two JSON documents by token sequence; unordered=true compares top-level
// array elements / object members as multisets.
func sameDocument(a, b []byte, unordered bool) bool {
	if !unordered {
		ta, ok1 := jsonTokens(a)
		tb, ok2 := jsonTokens(b)
		return ok1 && ok2 && strings.Join(ta, "\x00") == strings.Join(tb, "\x00")
	}
	ka, kb := topKind(a), topKind(b)
	if ka != kb {
		return false
	}
	switch ka {
	case "array":
		ea, _ := arrayElems(a)
		eb, _ := arrayElems(b)
		sort.Strings(ea)
		sort.Strings(eb)
		return strings.Join(ea, "\x00") == strings.Join(eb, "\x00")
	case "object":
		var ma, mb map[string]json.RawMessage
		if json.Unmarshal(a, &ma) != nil || json.Unmarshal(b, &mb) != nil || len(ma) != len(mb) {
			return false
		}
		for k, va := range ma {
			vb, ok := mb[k]
			if !ok || !sameDocument(va, vb, false) {
				return false
			}
		}
		return true
	}
	return sameDocument(a, b, false)
}

// parseKey converts a JSON object member name to a key of type K the way encoding/json does.
func parseKey[K comparable](name string) (K, bool) {
	var k K
	switch p := any(&k).(type) {
	case *string:
		*p = name
		return k, true
	case *int:
		n, err := strconv.ParseInt(name, 10, 64)
		if err != nil {
			return k, false
		}
		*p = int(n)
		return k, true
	}
	return k, false
}

// refDecodeObject is the reference decoder for key-value containers: encoding/json into a plain
// map decides acceptance and values (a later duplicate overrides an earlier one); the token
// stream gives the member order (position of the first occurrence).
func refDecodeObject[K comparable](b []byte) ([]kvEnt[K], bool) {
	var mm map[K]string
	if err := json.Unmarshal(b, &mm); err != nil {
		return nil, false
	}
	if len(mm) == 0 {
		return nil, true
	}
	names, ok := objectKeyOrder(b)
	if !ok {
		return nil, false
	}
	var out []kvEnt[K]
	seen := map[K]bool{}
	for _, n := range names {
		k, ok := parseKey[K](n)
		if !ok {
			return nil, false
		}
		if seen[k] {
			continue
		}
		seen[k] = true
		v, present := mm[k]
		if !present {
			return nil, false
		}
		out = append(out, kvEnt[K]{k, v})
	}
	if len(out) != len(mm) {
		return nil, false
	}
	return out, true
}
