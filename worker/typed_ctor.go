package main

import (
	"cmp"
	"math"
	"slices"

	"github.com/emirpasic/gods/v2/maps/treebidimap"
	"github.com/emirpasic/gods/v2/maps/treemap"
	"github.com/emirpasic/gods/v2/queues/priorityqueue"
	"github.com/emirpasic/gods/v2/sets/treeset"
	"github.com/emirpasic/gods/v2/trees/avltree"
	"github.com/emirpasic/gods/v2/trees/binaryheap"
	"github.com/emirpasic/gods/v2/trees/btree"
	"github.com/emirpasic/gods/v2/trees/redblacktree"
)

// The default constructors (New) are generic over every cmp.Ordered type and order by cmp.Compare. The
// worlds instantiate them with int, string and float64; a run built with the default constructor also
// replays a short derived insertion sequence on the same container kind instantiated with other ordered
// types - float32 and a named float64 (with NaN, infinities, both zeros), int8, uint16, a named
// string - and compares with slices.SortFunc(cmp.Compare) (de-duplicated for the keyed containers).

func typedCtorOne[T cmp.Ordered](o *Oracle, tag, kind, tname string, vals []T) {
	if o.Failed() {
		return
	}
	want := slices.Clone(vals)
	slices.SortStableFunc(want, cmp.Compare[T])
	var got []T
	heap := false
	found := true
	switch kind {
	case "treeset":
		s := treeset.New[T]()
		for _, v := range vals {
			s.Add(v)
		}
		got = s.Values()
		for _, v := range vals {
			found = found && s.Contains(v)
		}
	case "redblacktree":
		t := redblacktree.New[T, int]()
		for i, v := range vals {
			t.Put(v, i)
		}
		got = t.Keys()
		for _, v := range vals {
			_, ok := t.Get(v)
			found = found && ok
		}
	case "avltree":
		t := avltree.New[T, int]()
		for i, v := range vals {
			t.Put(v, i)
		}
		got = t.Keys()
		for _, v := range vals {
			_, ok := t.Get(v)
			found = found && ok
		}
	case "btree":
		t := btree.New[T, int](3 + len(vals)%3)
		for i, v := range vals {
			t.Put(v, i)
		}
		got = t.Keys()
		for _, v := range vals {
			_, ok := t.Get(v)
			found = found && ok
		}
	case "treemap":
		t := treemap.New[T, int]()
		for i, v := range vals {
			t.Put(v, i)
		}
		got = t.Keys()
		for _, v := range vals {
			_, ok := t.Get(v)
			found = found && ok
		}
	case "treebidimap":
		t := treebidimap.New[T, T]()
		for _, v := range vals {
			t.Put(v, v)
		}
		got = t.Keys()
		gv := t.Values()
		for _, v := range vals {
			_, ok := t.Get(v)
			_, ok2 := t.GetKey(v)
			found = found && ok && ok2
		}
		if len(gv) != len(got) {
			o.Fail(tag, "default-constructor-typed", "treebidimap.New over %s: after Put(v,v) for %v Keys()=%v Values()=%v", tname, vals, got, gv)
			return
		}
	case "binaryheap":
		heap = true
		h := binaryheap.New[T]()
		for _, v := range vals {
			h.Push(v)
		}
		for {
			v, ok := h.Pop()
			if !ok {
				break
			}
			got = append(got, v)
			if len(got) > len(vals)+1 {
				break
			}
		}
	case "priorityqueue":
		heap = true
		q := priorityqueue.New[T]()
		for _, v := range vals {
			q.Enqueue(v)
		}
		for {
			v, ok := q.Dequeue()
			if !ok {
				break
			}
			got = append(got, v)
			if len(got) > len(vals)+1 {
				break
			}
		}
	default:
		return
	}
	if !heap {
		want = slices.CompactFunc(want, func(a, b T) bool { return cmp.Compare(a, b) == 0 })
	}
	ok := len(got) == len(want)
	for i := 0; ok && i < len(got); i++ {
		ok = cmp.Compare(got[i], want[i]) == 0
	}
	if !ok {
		o.Fail(tag, "default-constructor-typed", "%s built by New over %s elements: inserted %v, enumerates %v, want (cmp.Compare order) %v", kind, tname, vals, got, want)
		return
	}
	if !found {
		o.Fail(tag, "default-constructor-typed", "%s built by New over %s elements: inserted %v, but a lookup of an inserted element fails", kind, tname, vals)
	}
}

func typedCtorProbe(o *Oracle, prop, kind string, salt int) {
	n := 3 + derive(salt, 5, 7)
	f32 := make([]float32, n)
	cel := make([]celsius, n)
	i8 := make([]int8, n)
	u16 := make([]uint16, n)
	tg := make([]tag, n)
	nan32, nan64 := float32(math.NaN()), celsius(math.NaN())
	for i := 0; i < n; i++ {
		x := derive(salt, 100+i, 10)
		f32[i] = []float32{3, nan32, 1, 2, -1, float32(math.Inf(1)), 0, 7.5, float32(math.Inf(-1)), float32(math.Copysign(0, -1))}[x]
		cel[i] = []celsius{3, nan64, 1, 2, -1, celsius(math.Inf(1)), 0, 7.5, -40, celsius(math.Copysign(0, -1))}[x]
		i8[i] = []int8{3, -128, 1, 2, -1, 127, 0, 7, -40, 100}[x]
		u16[i] = []uint16{3, 65535, 1, 2, 40000, 127, 0, 7, 256, 32768}[x]
		tg[i] = []tag{"b", "", "a", "B", "ab", "z", "é", "A", "~", "aa"}[x]
	}
	typedCtorOne(o, prop, kind, "float32", f32)
	typedCtorOne(o, prop, kind, "named float64", cel)
	typedCtorOne(o, prop, kind, "int8", i8)
	typedCtorOne(o, prop, kind, "uint16", u16)
	typedCtorOne(o, prop, kind, "named string", tg)
}
