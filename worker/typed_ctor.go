package main

import (
	"cmp"
	"fmt"
	"math"
	"slices"
	"strings"
	"time"

	"github.com/emirpasic/gods/v2/containers"
	"github.com/emirpasic/gods/v2/maps"
	"github.com/emirpasic/gods/v2/utils"

	"github.com/emirpasic/gods/v2/maps/treebidimap"
	"github.com/emirpasic/gods/v2/queues/arrayqueue"
	"github.com/emirpasic/gods/v2/queues/circularbuffer"
	"github.com/emirpasic/gods/v2/queues/linkedlistqueue"
	"github.com/emirpasic/gods/v2/sets"
	"github.com/emirpasic/gods/v2/sets/hashset"
	"github.com/emirpasic/gods/v2/sets/linkedhashset"
	"github.com/emirpasic/gods/v2/stacks/arraystack"
	"github.com/emirpasic/gods/v2/stacks/linkedliststack"
	"github.com/emirpasic/gods/v2/maps/treemap"
	"github.com/emirpasic/gods/v2/queues/priorityqueue"
	"github.com/emirpasic/gods/v2/sets/treeset"
	"github.com/emirpasic/gods/v2/trees/avltree"
	"github.com/emirpasic/gods/v2/trees/binaryheap"
	"github.com/emirpasic/gods/v2/trees/btree"
	"github.com/emirpasic/gods/v2/trees/redblacktree"
)

// The default constructors (New) are generic over every cmp.Ordered type and order by cmp.Compare. The
// worlds instantiate them with int, string and float64; a run built with the default constructor also
// replays a short derived insertion sequence on the same container kind instantiated with other ordered
// types - float32 and a named float64 (with NaN, infinities, both zeros), int8, uint16, a named
// string - and compares with slices.SortFunc(cmp.Compare) (de-duplicated for the keyed containers).

func typedCtorOne[T cmp.Ordered](o *Oracle, tag, kind, tname string, vals []T) {
	if o.Failed() {
		return
	}
	want := slices.Clone(vals)
	slices.SortStableFunc(want, cmp.Compare[T])
	var got []T
	heap := false
	found := true
	switch kind {
	case "treeset":
		s := treeset.New[T]()
		for _, v := range vals {
			s.Add(v)
		}
		got = s.Values()
		for _, v := range vals {
			found = found && s.Contains(v)
		}
	case "redblacktree":
		t := redblacktree.New[T, int]()
		for i, v := range vals {
			t.Put(v, i)
		}
		got = t.Keys()
		for _, v := range vals {
			_, ok := t.Get(v)
			found = found && ok
		}
	case "avltree":
		t := avltree.New[T, int]()
		for i, v := range vals {
			t.Put(v, i)
		}
		got = t.Keys()
		for _, v := range vals {
			_, ok := t.Get(v)
			found = found && ok
		}
	case "btree":
		t := btree.New[T, int](3 + len(vals)%3)
		for i, v := range vals {
			t.Put(v, i)
		}
		got = t.Keys()
		for _, v := range vals {
			_, ok := t.Get(v)
			found = found && ok
		}
	case "treemap":
		t := treemap.New[T, int]()
		for i, v := range vals {
			t.Put(v, i)
		}
		got = t.Keys()
		for _, v := range vals {
			_, ok := t.Get(v)
			found = found && ok
		}
	case "treebidimap":
		t := treebidimap.New[T, T]()
		for _, v := range vals {
			t.Put(v, v)
		}
		got = t.Keys()
		gv := t.Values()
		for _, v := range vals {
			_, ok := t.Get(v)
			_, ok2 := t.GetKey(v)
			found = found && ok && ok2
		}
		if len(gv) != len(got) {
			o.Fail(tag, "default-constructor-typed", "treebidimap.New over %s: after Put(v,v) for %v Keys()=%v Values()=%v", tname, vals, got, gv)
			return
		}
	case "binaryheap":
		heap = true
		h := binaryheap.New[T]()
		for _, v := range vals {
			h.Push(v)
		}
		for {
			v, ok := h.Pop()
			if !ok {
				break
			}
			got = append(got, v)
			if len(got) > len(vals)+1 {
				break
			}
		}
	case "priorityqueue":
		heap = true
		q := priorityqueue.New[T]()
		for _, v := range vals {
			q.Enqueue(v)
		}
		for {
			v, ok := q.Dequeue()
			if !ok {
				break
			}
			got = append(got, v)
			if len(got) > len(vals)+1 {
				break
			}
		}
	default:
		return
	}
	if !heap {
		want = slices.CompactFunc(want, func(a, b T) bool { return cmp.Compare(a, b) == 0 })
	}
	ok := len(got) == len(want)
	for i := 0; ok && i < len(got); i++ {
		ok = cmp.Compare(got[i], want[i]) == 0
	}
	if !ok {
		o.Fail(tag, "default-constructor-typed", "%s built by New over %s elements: inserted %v, enumerates %v, want (cmp.Compare order) %v", kind, tname, vals, got, want)
		return
	}
	if !found {
		o.Fail(tag, "default-constructor-typed", "%s built by New over %s elements: inserted %v, but a lookup of an inserted element fails", kind, tname, vals)
	}
}

func typedCtorProbe(o *Oracle, prop, kind string, salt int) {
	n := 3 + derive(salt, 5, 7)
	f32 := make([]float32, n)
	cel := make([]celsius, n)
	i8 := make([]int8, n)
	u16 := make([]uint16, n)
	tg := make([]tag, n)
	nan32, nan64 := float32(math.NaN()), celsius(math.NaN())
	for i := 0; i < n; i++ {
		x := derive(salt, 100+i, 10)
		f32[i] = []float32{3, nan32, 1, 2, -1, float32(math.Inf(1)), 0, 7.5, float32(math.Inf(-1)), float32(math.Copysign(0, -1))}[x]
		cel[i] = []celsius{3, nan64, 1, 2, -1, celsius(math.Inf(1)), 0, 7.5, -40, celsius(math.Copysign(0, -1))}[x]
		i8[i] = []int8{3, -128, 1, 2, -1, 127, 0, 7, -40, 100}[x]
		u16[i] = []uint16{3, 65535, 1, 2, 40000, 127, 0, 7, 256, 32768}[x]
		tg[i] = []tag{"b", "", "a", "B", "ab", "z", "é", "A", "~", "aa"}[x]
	}
	typedCtorOne(o, prop, kind, "float32", f32)
	typedCtorOne(o, prop, kind, "named float64", cel)
	typedCtorOne(o, prop, kind, "int8", i8)
	typedCtorOne(o, prop, kind, "uint16", u16)
	typedCtorOne(o, prop, kind, "named string", tg)
}

// ---- time.Time keys with the library's own comparator -------------------------------------------------

// utils.TimeComparator is the one comparator the library ships. The ordered containers built with it over
// time.Time keys are replayed on a derived insertion/removal sequence and compared with a reference keyed by
// the instant (Before/After/Equal): the same instant in two locations is one key, instants 2^64 ns apart
// and dates outside 1678..2262 (where UnixNano wraps) are different keys in chronological order.
func timePool() []time.Time {
	cet := time.FixedZone("CET", 3600)
	base := time.Date(2000, 1, 1, 0, 0, 0, 0, time.UTC)
	wrap := time.Duration(1<<63 - 1)
	far := base.Add(wrap).Add(wrap).Add(2) // base + 2^64 ns
	return []time.Time{
		base, base.In(cet), base.Add(time.Nanosecond), base.Add(-time.Nanosecond), far, far.In(cet),
		{}, time.Time{}.Add(wrap).Add(wrap).Add(2), time.Date(1600, 3, 1, 0, 0, 0, 0, time.UTC), time.Date(2300, 1, 1, 0, 0, 0, 0, cet),
		time.Date(9999, 12, 31, 23, 59, 59, 999999999, time.UTC), time.Date(1970, 1, 1, 0, 0, 0, 0, time.UTC), time.Date(1970, 1, 1, 1, 0, 0, 0, cet),
		time.Date(2024, 2, 29, 12, 0, 0, 0, time.UTC), time.Date(1677, 9, 21, 0, 12, 43, 145224191, time.UTC), time.Date(2262, 4, 11, 23, 47, 16, 854775808, time.UTC),
	}
}

func timeRef(a, b time.Time) int {
	switch {
	case a.Before(b):
		return -1
	case a.After(b):
		return 1
	}
	return 0
}

func timeKeysProbe(o *Oracle, prop, kind string, salt int) {
	pool := timePool()
	type ent struct {
		k time.Time
		v int
	}
	var ref []ent // sorted by instant
	put := func(k time.Time, v int) {
		i, found := slices.BinarySearchFunc(ref, k, func(e ent, t time.Time) int { return timeRef(e.k, t) })
		if found {
			ref[i].v = v
		} else {
			ref = slices.Insert(ref, i, ent{k, v})
		}
	}
	del := func(k time.Time) {
		if i, found := slices.BinarySearchFunc(ref, k, func(e ent, t time.Time) int { return timeRef(e.k, t) }); found {
			ref = slices.Delete(ref, i, i+1)
		}
	}
	var m maps.Map[time.Time, int]
	var set *treeset.Set[time.Time]
	switch kind {
	case "treemap":
		m = treemap.NewWith[time.Time, int](utils.TimeComparator)
	case "redblacktree":
		m = redblacktree.NewWith[time.Time, int](utils.TimeComparator)
	case "avltree":
		m = avltree.NewWith[time.Time, int](utils.TimeComparator)
	case "btree":
		m = btree.NewWith[time.Time, int](3+salt%3, utils.TimeComparator)
	case "treebidimap":
		m = treebidimap.NewWith[time.Time, int](utils.TimeComparator, cmp.Compare[int])
	case "treeset":
		set = treeset.NewWith[time.Time](utils.TimeComparator)
	default:
		return
	}
	n := 8 + derive(salt, 1, 16)
	var hist []string
	for step := 0; step < n && !o.Failed(); step++ {
		k := pool[derive(salt, 10+step, len(pool))]
		remove := derive(salt, 100+step, 4) == 0
		if remove {
			hist = append(hist, "Remove("+k.Format(time.RFC3339Nano)+")")
			del(k)
			if set != nil {
				set.Remove(k)
			} else {
				m.Remove(k)
			}
		} else {
			hist = append(hist, "Put("+k.Format(time.RFC3339Nano)+")")
			put(k, step)
			if set != nil {
				set.Add(k)
			} else {
				m.Put(k, step) // (values are unique per step, so the bidirectional map evicts nothing else)
			}
		}
		var keys []time.Time
		if set != nil {
			keys = set.Values()
		} else {
			keys = m.Keys()
		}
		ok := len(keys) == len(ref)
		for i := 0; ok && i < len(keys); i++ {
			ok = keys[i].Equal(ref[i].k)
		}
		if !ok {
			o.Fail(prop, "time-keys", "%s ordered by utils.TimeComparator after %v: keys %v, want the instants %v in chronological order", kind, hist, keys, mapS(ref, func(e ent) string { return e.k.UTC().Format(time.RFC3339Nano) }))
			return
		}
		for _, p := range pool {
			i, want := slices.BinarySearchFunc(ref, p, func(e ent, t time.Time) int { return timeRef(e.k, t) })
			var got bool
			gv := 0
			if set != nil {
				got = set.Contains(p)
			} else {
				gv, got = m.Get(p)
			}
			if got != want || (got && set == nil && gv != ref[i].v) {
				o.Fail(prop, "time-keys", "%s ordered by utils.TimeComparator after %v: lookup of %s gives (%d,%v), reference present=%v", kind, hist, p.Format(time.RFC3339Nano), gv, got, want)
				return
			}
		}
	}
}

// ---- pointer elements with a comparator that dereferences ---------------------------------------------------

// Pointer elements ordered by a field of the pointee: the probe runs a derived script on the comparator-using
// kinds over *Item. Any panic raised inside the library is a violation as everywhere else. A call of the
// comparator with nil - the zero value of T, never stored - is only *counted* (unjudged): the statements
// quantify over comparators that are strict weak orders on T, and nil is a value of T, so a library that
// asks the comparator about it (e.g. by evaluating the comparison before a bounds test) breaks no listed
// property, although a comparator that dereferences its arguments then panics. Two seeded changes
// (C06-w5C, C13-w5C) are of this kind and are recorded as outside the properties.
type foreignArg struct{}

func derefCmp(a, b *Item) int {
	if a == nil || b == nil {
		panic(foreignArg{})
	}
	return cmp.Compare(a.P, b.P)
}

func pointerElementsProbe(o *Oracle, prop, kind string, salt int) {
	pool := make([]*Item, 12)
	for i := range pool {
		pool[i] = &Item{P: i/2 - 2, ID: i} // pairs that compare equal but are different pointers
	}
	pick := func(i int) *Item { return pool[derive(salt, i, len(pool))] }
	step := 0
	foreignSeen := false
	call := func(what string, f func()) bool {
		if o.Failed() || foreignSeen { // (after a nil reached the comparator the container may be half-updated: stop)
			return false
		}
		ok := true
		func() {
			defer func() {
				if r := recover(); r != nil {
					if _, isForeign := r.(foreignArg); !isForeign {
						// any other panic: attributed like everywhere else (library frame first => violation)
						if _, isNT := r.(nonTermination); isNT {
							panic(r)
						}
						origin, frames := panicOrigin()
						if origin != "gods" {
							panic(r)
						}
						ok = false
						o.Fail(prop, "panic", "%s over pointer elements: %s (step %d) panicked: %v\n%s", kind, what, step, r, strings.Join(frames, "\n"))
						return
					}
					ok = false
					foreignSeen = true
					o.Unjudged("comparator called with the zero value of a pointer element type (" + kind + ": " + what + ")")
				}
			}()
			f()
		}()
		step++
		return ok
	}
	n := 6 + derive(salt, 1, 10)
	_ = foreignSeen
	switch kind {
	case "treeset":
		a, b := treeset.NewWith[*Item](derefCmp), treeset.NewWith[*Item](derefCmp)
		alg := func(tag string) {
			for _, x := range [][2]*treeset.Set[*Item]{{a, b}, {b, a}, {a, a}} {
				x := x
				call("Intersection "+tag, func() { x[0].Intersection(x[1]).Add(pick(900)) })
				call("Union "+tag, func() { x[0].Union(x[1]).Add(pick(901)) })
				call("Difference "+tag, func() { x[0].Difference(x[1]).Add(pick(902)) })
			}
		}
		alg("of two empty sets")
		for i := 0; i < n; i++ {
			i := i
			call("Add", func() { a.Add(pick(10+i), pick(40+i)) })
			if i%3 == 0 {
				alg("with an empty argument")
			}
			if i%4 == 3 {
				call("Add", func() { b.Add(pick(70 + i)) })
				alg("of non-empty sets")
				call("Clear", func() { b.Clear() })
				alg("with a cleared argument")
			}
			call("Remove/Contains", func() { a.Remove(pick(100 + i)); a.Contains(pick(130+i), pick(160+i)) })
		}
		call("Values/String", func() { a.Values(); _ = a.String(); a.Select(func(int, *Item) bool { return true }) })
	case "treemap", "redblacktree", "avltree", "btree", "treebidimap":
		var m maps.Map[*Item, int]
		switch kind {
		case "treemap":
			m = treemap.NewWith[*Item, int](derefCmp)
		case "redblacktree":
			m = redblacktree.NewWith[*Item, int](derefCmp)
		case "avltree":
			m = avltree.NewWith[*Item, int](derefCmp)
		case "btree":
			m = btree.NewWith[*Item, int](3+salt%4, derefCmp)
		default:
			m = treebidimap.NewWith[*Item, int](derefCmp, cmp.Compare[int])
		}
		call("Get/Remove on the empty container", func() { m.Get(pick(1)); m.Remove(pick(2)); m.Keys(); m.Values() })
		for i := 0; i < n; i++ {
			i := i
			call("Put", func() { m.Put(pick(10+i), i) })
			call("Get", func() { m.Get(pick(40 + i)) })
			if i%3 == 2 {
				call("Remove", func() { m.Remove(pick(70 + i)) })
			}
			if i == n/2 {
				call("Clear", func() { m.Clear(); m.Get(pick(3)); m.Remove(pick(4)) })
			}
		}
		call("Keys/Values/String", func() { m.Keys(); m.Values(); _ = m.(fmt.Stringer).String() })
		if nav, ok := m.(interface {
			Floor(*Item) (*Item, int, bool)
			Ceiling(*Item) (*Item, int, bool)
		}); ok {
			call("Floor/Ceiling", func() { nav.Floor(pick(5)); nav.Ceiling(pick(6)) })
		}
	case "binaryheap", "priorityqueue":
		var push func(...*Item)
		var pop func() (*Item, bool)
		var c containers.Container[*Item]
		if kind == "binaryheap" {
			h := binaryheap.NewWith[*Item](derefCmp)
			push, pop, c = h.Push, h.Pop, h
		} else {
			q := priorityqueue.NewWith[*Item](derefCmp)
			push = func(vs ...*Item) {
				for _, v := range vs {
					q.Enqueue(v)
				}
			}
			pop, c = q.Dequeue, q
		}
		call("Pop on the empty heap", func() { pop(); c.Values() })
		for i := 0; i < n; i++ {
			i := i
			if i%3 == 0 {
				call("bulk Push", func() { push(pick(10+i), pick(40+i), pick(70+i)) })
			} else {
				call("Push", func() { push(pick(10 + i)) })
			}
			if i%2 == 1 {
				call("Pop", func() { pop() })
			}
			call("Values/String", func() { c.Values(); _ = c.String() })
		}
		for i := 0; i < 3*n && !c.Empty(); i++ {
			call("Pop (draining)", func() { pop() })
		}
		call("Pop on the drained heap", func() { pop(); push(pick(200)); pop() })
	}
}

// ---- zero-size element types -----------------------------------------------------------------------------

// struct{} (and [0]int) are comparable element types of size zero: all values are equal, sequences still
// have lengths. The probe runs the sequence containers and sets over struct{}, and over an element type
// wider than any small-element fast path ([17]int64: 136 bytes), all elements being the zero value.
func zeroSizeProbe(o *Oracle, prop, kind string) {
	sizeProbe[struct{}](o, prop, kind, "struct{}")
	sizeProbe[[17]int64](o, prop, kind, "[17]int64")
}

func sizeProbe[E comparable](o *Oracle, prop, kind, tname string) {
	if o.Failed() {
		return
	}
	fail := func(what string, got, want any) {
		o.Fail(prop, "element-size", "%s over %s elements: %s = %v, want %v", kind, tname, what, got, want)
	}
	var zero E
	eq := func(what string, got, want any) bool {
		if !o.Failed() && fmt.Sprint(got) != fmt.Sprint(want) {
			fail(what, got, want)
		}
		return !o.Failed()
	}
	switch familyOf(kind) {
	case "list":
		l := makeList[E](kind)
		l.Add(zero, zero, zero)
		l.Insert(1, zero)
		eq("Size after Add x3, Insert", l.Size(), 4)
		eq("len(Values())", len(l.Values()), 4)
		eq("Contains", l.Contains(zero, zero), true)
		eq("IndexOf", l.(indexOfer[E]).IndexOf(zero), 0)
		l.Remove(3)
		l.Remove(0)
		_, ok := l.Get(1)
		eq("Get(1) after two removals", ok, true)
		_, ok = l.Get(2)
		eq("Get(2) after two removals", ok, false)
		l.Clear()
		eq("Size after Clear", l.Size(), 0)
		eq("Contains on empty", l.Contains(zero), false)
	case "set":
		var s sets.Set[E]
		switch kind {
		case "hashset":
			s = hashset.New[E]()
		case "linkedhashset":
			s = linkedhashset.New[E]()
		default:
			return
		}
		s.Add(zero, zero)
		s.Add(zero)
		eq("Size after three Adds", s.Size(), 1)
		eq("len(Values())", len(s.Values()), 1)
		eq("Contains", s.Contains(zero), true)
		s.Remove(zero)
		eq("Size after Remove", s.Size(), 0)
		eq("Contains after Remove", s.Contains(zero), false)
	case "sq":
		var put func(E)
		var take func() (E, bool)
		var c containers.Container[E]
		switch kind {
		case "arraystack":
			x := arraystack.New[E]()
			put, take, c = x.Push, x.Pop, x
		case "linkedliststack":
			x := linkedliststack.New[E]()
			put, take, c = x.Push, x.Pop, x
		case "arrayqueue":
			x := arrayqueue.New[E]()
			put, take, c = x.Enqueue, x.Dequeue, x
		case "linkedlistqueue":
			x := linkedlistqueue.New[E]()
			put, take, c = x.Enqueue, x.Dequeue, x
		case "circularbuffer":
			x := circularbuffer.New[E](3)
			put, take, c = x.Enqueue, x.Dequeue, x
		}
		for i := 0; i < 5; i++ {
			put(zero)
		}
		want := 5
		if kind == "circularbuffer" {
			want = 3
		}
		eq("Size after five insertions", c.Size(), want)
		eq("len(Values())", len(c.Values()), want)
		_, ok := take()
		eq("first removal ok", ok, true)
		for i := 0; i < 6; i++ {
			take()
		}
		_, ok = take()
		eq("removal from the drained container ok", ok, false)
		eq("Size after draining", c.Size(), 0)
	}
}
