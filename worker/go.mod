module godsimworker

go 1.21

require github.com/emirpasic/gods/v2 v2.0.0-00010101000000-000000000000

replace github.com/emirpasic/gods/v2 => /nonexistent/replaced-by-godsim-at-check-time
