package main

import (
	"fmt"
	"slices"
	"sort"
	"strconv"

	"github.com/emirpasic/gods/v2/containers"
	"github.com/emirpasic/gods/v2/queues/priorityqueue"
	"github.com/emirpasic/gods/v2/trees/binaryheap"
)

var heapKinds = []string{"binaryheap", "priorityqueue"}
var heapNames = map[string]string{"binaryheap": "BinaryHeap", "priorityqueue": "PriorityQueue"}

type heapSubj[T comparable] struct {
	cfg      Cfg
	d        *Dom[T]
	c        sqReal[T]
	push     func(...T)
	pop      func() (T, bool)
	m        []T // multiset of members (full identity)
	scribble bool
	argDamage string
}

func (s *heapSubj[T]) ArgDamage() string { d := s.argDamage; s.argDamage = ""; return d }

func (s *heapSubj[T]) SetScribble(b bool) { s.scribble = b }

func newHeapSubj[T comparable](cfg Cfg, d *Dom[T]) *heapSubj[T] {
	s := &heapSubj[T]{cfg: cfg, d: d}
	if cfg.Ctor == "default" {
		var zero T
		var hp, q any
		switch any(zero).(type) {
		case int:
			hp, q = binaryheap.New[int](), priorityqueue.New[int]()
		case string:
			hp, q = binaryheap.New[string](), priorityqueue.New[string]()
		case float64:
			hp, q = binaryheap.New[float64](), priorityqueue.New[float64]()
		}
		if h, ok := hp.(*binaryheap.Heap[T]); ok && cfg.Kind == "binaryheap" {
			s.c, s.push, s.pop = h, h.Push, h.Pop
			return s
		}
		if qq, ok := q.(*priorityqueue.Queue[T]); ok && cfg.Kind == "priorityqueue" {
			s.c, s.pop = qq, qq.Dequeue
			s.push = func(vs ...T) {
				for _, v := range vs {
					qq.Enqueue(v)
				}
			}
			return s
		}
	}
	switch cfg.Kind {
	case "binaryheap":
		h := binaryheap.NewWith[T](d.Cmp)
		s.c, s.push, s.pop = h, h.Push, h.Pop
	case "priorityqueue":
		q := priorityqueue.NewWith[T](d.Cmp)
		s.c, s.pop = q, q.Dequeue
		s.push = func(vs ...T) {
			for _, v := range vs {
				q.Enqueue(v)
			}
		}
	default:
		panic("unknown heap kind " + cfg.Kind)
	}
	return s
}

func (s *heapSubj[T]) Kind() string   { return s.cfg.Kind }
func (s *heapSubj[T]) Family() string { return "heap" }
func (s *heapSubj[T]) Config() Cfg    { return s.cfg }
func (s *heapSubj[T]) Real() any      { return s.c }
func (s *heapSubj[T]) IO() jsonIO     { return s.c.(jsonIO) }
func (s *heapSubj[T]) ModelSize() int { return len(s.m) }
func (s *heapSubj[T]) Fresh() Subject {
	n := newHeapSubj(s.cfg, s.d)
	n.scribble = s.scribble
	return n
}

func (s *heapSubj[T]) vals(idx []int) []T {
	out := make([]T, len(idx), len(idx)+3)
	for i, k := range idx {
		out[i] = s.d.At(k)
	}
	return out
}

var heapRoles = []string{"mixed", "pusher", "popper", "bulk", "ties", "clearer"}

func (s *heapSubj[T]) Roles() []string { return heapRoles }

func (s *heapSubj[T]) GenOp(r *Rng, id int, c *Client) Op {
	dom := len(s.d.Tab)
	w := []int{8, 5, 8, 2, 1}
	switch c.Role {
	case "pusher":
		w = []int{10, 2, 1, 1, 0}
	case "popper":
		w = []int{2, 1, 10, 1, 0}
	case "bulk":
		w = []int{1, 10, 4, 1, 0}
	case "clearer":
		w = []int{8, 2, 2, 1, 3}
	}
	limit := 40
	if s.cfg.Mode == "big" {
		limit = 200
	}
	if len(s.m) > limit {
		w[2] += 30
	}
	pick := func() int {
		if c.Role == "ties" && len(s.m) > 0 {
			// an element comparing equal to a member but distinguishable from it
			k := tabIndex(s.d, s.m[r.Intn(len(s.m))])
			return k - k%3 + r.Intn(3)
		}
		return r.Intn(dom)
	}
	if len(s.m) > 0 && len(s.m) <= 20 && r.P(1, 30) {
		return Op{ID: id, N: "PushOwn"} // the heap's own Values() handed back to it
	}
	switch r.Weighted(w...) {
	case 0:
		return Op{ID: id, N: "Push", A: []int{pick()}}
	case 1:
		n := []int{0, 2, 2, 3, 3, 4, 5, 8}[r.Intn(8)]
		a := make([]int, n)
		for i := range a {
			a[i] = pick()
		}
		return Op{ID: id, N: "Push", A: a}
	case 2:
		return Op{ID: id, N: "Pop"}
	case 3:
		return Op{ID: id, N: "Peek"}
	}
	return Op{ID: id, N: "Clear"}
}

// sortIdx sorts table indices by the run's comparator (stable).
func (s *heapSubj[T]) sortIdx(idx []int) {
	slices.SortStableFunc(idx, func(a, b int) int { return s.d.Cmp(s.d.At(a), s.d.At(b)) })
}

func (s *heapSubj[T]) minIndex() int {
	best := -1
	for i, x := range s.m {
		if best < 0 || s.d.Cmp(x, s.m[best]) < 0 {
			best = i
		}
	}
	return best
}

func (s *heapSubj[T]) ModelApply(op Op) {
	switch op.N {
	case "Push":
		s.m = append(slices.Clone(s.m), s.vals(op.A)...)
	case "Pop":
		if i := s.minIndex(); i >= 0 {
			s.m = slices.Delete(slices.Clone(s.m), i, i+1)
		}
	case "Peek", "Churn":
	case "PushOwn":
		s.m = append(slices.Clone(s.m), s.m...)
	case "Clear":
		s.m = nil
	case "Fill":
		s.m = append(slices.Clone(s.m), s.vals(heapFill(op.A))...)
	case "Shrink":
		for len(s.m) > op.A[0] {
			i := s.minIndex()
			s.m = slices.Delete(slices.Clone(s.m), i, i+1)
		}
	case "FromJSON":
		if xs, ok := refDecodeSlice[T](op.B); ok {
			s.m = xs
		}
	default:
		panic("heap model: unknown op " + op.N)
	}
}

func (s *heapSubj[T]) Step(op Op, o *Oracle) {
	o.cur = op
	o.Kind = s.cfg.Kind
	switch op.N {
	case "Push":
		vs := s.vals(op.A)
		s.push(vs...)
		if s.scribble { // C16: the caller overwrites the slice it passed
			if dmg := argDamage(vs, s.vals(op.A), s.d.Str); dmg != "" && s.argDamage == "" {
				s.argDamage = dmg
			}
			for i := range vs {
				vs[i] = s.d.Probes[0]
			}
			vs = append(vs, s.d.Probes[0])
			_ = vs
		}
		s.m = append(slices.Clone(s.m), s.vals(op.A)...)
	case "PushOwn":
		vs := ownArgs(s.c.Values())
		was := slices.Clone(vs)
		s.push(vs...)
		if s.scribble {
			if dmg := argDamage(vs, was, s.d.Str); dmg != "" && s.argDamage == "" {
				s.argDamage = dmg
			}
			for i := range vs {
				vs[i] = s.d.Probes[0]
			}
		}
		s.m = append(slices.Clone(s.m), s.m...)
	case "Pop", "Peek":
		var v T
		var ok bool
		if op.N == "Pop" {
			v, ok = s.pop()
		} else {
			v, ok = s.c.Peek()
		}
		s.judgeMin(o, op.N, v, ok)
		if op.N == "Pop" && ok {
			if i := s.indexOf(v); i >= 0 {
				s.m = slices.Delete(slices.Clone(s.m), i, i+1)
			}
		}
	case "Clear":
		s.c.Clear()
		s.m = nil
	case "Churn": // op.A[0] push/pop pairs
		for i := 0; i < op.A[0]; i++ {
			x := s.d.At((op.A[1] + i) % len(s.d.Tab))
			s.push(x)
			s.m = append(slices.Clone(s.m), x)
			v, ok := s.pop()
			s.judgeMin(o, "Pop", v, ok)
			j := s.indexOf(v)
			if !ok || j < 0 || o.Failed() {
				break
			}
			s.m = slices.Delete(slices.Clone(s.m), j, j+1)
			if i%512 == 0 {
				opSteps = 0
			}
		}
	case "Fill":
		s.push(s.vals(heapFill(op.A))...)
		s.m = append(slices.Clone(s.m), s.vals(heapFill(op.A))...)
	case "Shrink":
		for len(s.m) > op.A[0] {
			v, ok := s.pop()
			i := s.indexOf(v)
			if !ok || i < 0 {
				break // (what Pop returns is judged by the Pop steps; here the model only follows)
			}
			s.m = slices.Delete(slices.Clone(s.m), i, i+1)
		}
	case "FromJSON":
		// C06 names "successful FromJSON" in its statement: after a successful load the heap must
		// hold exactly the loaded multiset and keep yielding minima.
		// (FromJSON, UnmarshalJSON and json.Unmarshal are three entry points to the same load)
		err := loadVariant(s, op.ID, op.B)
		xs, ok := refDecodeSlice[T](op.B)
		if err == nil {
			if !ok {
				o.Unjudged("C06 FromJSON accepted input the reference decoder rejects")
				s.m = s.c.Values()
			} else {
				s.m = xs
			}
		}
		// an unsuccessful load is C12's concern: re-synchronise the model to whatever is there
		if err != nil {
			s.m = s.c.Values()
		}
	default:
		panic("heap: unknown op " + op.N)
	}
	s.check(o)
}

func (s *heapSubj[T]) judgeMin(o *Oracle, what string, v T, ok bool) {
	if !o.On("C06") {
		return
	}
	if ok != (len(s.m) > 0) {
		o.Fail("C06", "ok-flag", "%s returned ok=%v with %d members", what, ok, len(s.m))
		return
	}
	if !ok {
		var zero T
		if v != zero {
			o.Fail("C06", "zero-on-empty", "%s on empty returned %s", what, s.d.Str(v))
		}
		return
	}
	if s.indexOf(v) < 0 {
		o.Fail("C06", "not-a-member", "%s returned %s which is not a member; members %s", what, s.d.Str(v), joinS(s.m, s.d.Str))
		return
	}
	for _, x := range s.m {
		if s.d.Cmp(x, v) < 0 {
			o.Fail("C06", "not-minimal", "%s returned %s but member %s precedes it (comparator %s); members %s", what, s.d.Str(v), s.d.Str(x), s.d.CmpName, joinS(s.m, s.d.Str))
			return
		}
	}
}

func (s *heapSubj[T]) iter() containers.IteratorWithIndex[T] {
	switch c := s.c.(type) {
	case *binaryheap.Heap[T]:
		return c.Iterator()
	case *priorityqueue.Queue[T]:
		return c.Iterator()
	}
	return nil
}

func (s *heapSubj[T]) check(o *Oracle) {
	if o.Sparse {
		return
	}
	if len(o.Active) == 0 {
		return // C18 write phases: no observer may run on the container (it would warm lazily built state)
	}
	if derive(o.cur.ID, 91, 2) == 1 && o.On("C06") { // (observer order varies, see listSubj.check)
		v, ok := s.c.Peek()
		s.judgeMin(o, "Peek (asked before Values())", v, ok)
	}
	vals := s.c.Values()
	if o.On("C06") || o.On("C16") {
		tag := "C06"
		if !o.On("C06") {
			tag = "C16"
		}
		if got := s.c.Size(); got != len(s.m) {
			o.Fail(tag, "size", "after %s: Size()=%d, multiset has %d", o.cur, got, len(s.m))
		}
		if !s.samePerm(vals) {
			o.Fail(tag, "values-multiset", "after %s: Values()=%s is not a permutation of the pushed-minus-popped multiset %s", o.cur, joinS(vals, s.d.Str), joinS(s.m, s.d.Str))
		}
		pv, pok := s.c.Peek()
		if tag == "C06" {
			s.judgeMin(o, "Peek", pv, pok)
		}
		if pok && len(vals) > 0 && s.d.Str(vals[0]) != s.d.Str(pv) {
			o.Fail(tag, "values-first-is-peek", "after %s: Values()[0]=%s but Peek()=%s", o.cur, s.d.Str(vals[0]), s.d.Str(pv))
		}
		var itv []T
		for it := s.iter(); it.Next(); {
			itv = append(itv, it.Value())
			if len(itv) > len(s.m)+4 {
				break
			}
		}
		if !s.samePerm(itv) {
			o.Fail(tag, "iterator-multiset", "after %s: iteration %s is not a permutation of %s", o.cur, joinS(itv, s.d.Str), joinS(s.m, s.d.Str))
		} else if pok && len(itv) > 0 && s.d.Str(itv[0]) != s.d.Str(pv) {
			o.Fail(tag, "iterator-first-is-peek", "after %s: first iterated element %s but Peek()=%s", o.cur, s.d.Str(itv[0]), s.d.Str(pv))
		}
	}
	checkC15(o, s.c, len(vals), -1, heapNames[s.cfg.Kind])
}

// FinalDrain pops everything: the sequence must be non-decreasing and exactly the multiset.
func (s *heapSubj[T]) FinalDrain(o *Oracle) {
	o.cur = Op{ID: -1, N: "Drain"}
	var out []T
	for i := 0; i <= len(s.m)+4; i++ {
		v, ok := s.pop()
		if !ok {
			break
		}
		out = append(out, v)
	}
	if !s.samePerm(out) {
		o.Fail("C06", "drain-multiset", "draining yielded %s, members were %s", joinS(out, s.d.Str), joinS(s.m, s.d.Str))
	}
	for i := 1; i < len(out); i++ {
		if s.d.Cmp(out[i-1], out[i]) > 0 {
			o.Fail("C06", "drain-order", "drain not non-decreasing at %d: %s", i, joinS(out, s.d.Str))
			break
		}
	}
	s.m = nil
}

func (s *heapSubj[T]) sortedClasses(xs []T) string {
	c := mapS(xs, s.d.Str)
	sort.Strings(c)
	return bracket(c)
}

func (s *heapSubj[T]) Obs() string {
	v, ok := s.c.Peek()
	return fmt.Sprintf("size=%d empty=%v peek=%s,%v members=%s", s.c.Size(), s.c.Empty(), s.d.Class(v), ok, s.sortedClasses(s.c.Values()))
}

// ObsJSON includes the raw layout (the ToJSON document), which fixes the future pop order.
func (s *heapSubj[T]) ObsJSON() string {
	return s.Obs() + " values=" + joinS(s.c.Values(), s.d.Str) + " json=" + jsonText(s.IO())
}

func (s *heapSubj[T]) ModelObs() string {
	var v T
	if i := s.minIndex(); i >= 0 {
		v = s.m[i]
	}
	return fmt.Sprintf("size=%d empty=%v peek=%s,%v members=%s", len(s.m), len(s.m) == 0, s.d.Class(v), len(s.m) > 0, s.sortedClasses(s.m))
}

func (s *heapSubj[T]) LoadModel(b []byte) bool {
	xs, ok := refDecodeSlice[T](b)
	if !ok {
		return false
	}
	s.m = xs
	return true
}

func (s *heapSubj[T]) CheckLoaded(o *Oracle, tag string) {
	if got, want := s.Obs(), s.ModelObs(); got != want {
		o.Fail(tag, "loaded-content", "after %s: container %s, input denotes %s", o.cur, got, want)
	}
}

// Drain returns the pop sequence with full element identity: C11's "the same subsequent Pop/Dequeue
// sequence" is read literally (the heap's ToJSON is its raw layout, so a reloaded heap pops in exactly
// the same order, ties included).
func (s *heapSubj[T]) Drain() string {
	var out []T
	for i := 0; i <= hostileMaxSize*64; i++ {
		v, ok := s.pop()
		if !ok {
			break
		}
		out = append(out, v)
	}
	s.m = nil
	return joinS(out, s.d.Str)
}

var heapReads = []string{"Peek", "Peek", "Size", "Empty", "Values", "String", "ToJSON", "MarshalJSON", "Walk", "WalkBack", "NextTo", "Sorted"}

func (s *heapSubj[T]) GenRead(r *Rng, id int) Op {
	n := heapReads[r.Intn(len(heapReads))]
	return Op{ID: id, N: n, A: []int{0, r.Intn(len(s.d.Tab)), r.Intn(7)}}
}

func (s *heapSubj[T]) DoRead(op Op) string {
	switch op.N {
	case "Peek":
		v, ok := s.c.Peek()
		return fmt.Sprintf("%s,%v", s.d.Str(v), ok)
	case "Size":
		return strconv.Itoa(s.c.Size())
	case "Empty":
		return strconv.FormatBool(s.c.Empty())
	case "Values":
		return joinS(s.c.Values(), s.d.Str)
	case "String":
		return s.c.String()
	case "ToJSON":
		return jsonText(s.IO())
	case "MarshalJSON":
		b, err := s.IO().MarshalJSON()
		return string(b) + fmtErr(err)
	case "Sorted":
		return joinS(containers.GetSortedValuesFunc[T](s.c, s.d.Cmp), s.d.Class)
	}
	return readIdx[T](op, s.d, s.iter, nil)
}

func (s *heapSubj[T]) GenHostile(r *Rng, id int) Op {
	names := []string{"Push", "Push", "Push", "Pop", "Pop", "Peek", "Clear", "Values", "String", "ToJSON", "Iter", "Sorted", "Size"}
	cnt := genCount(r)
	if r.P(1, 12) {
		cnt = r.Range(10, 64)
	}
	return Op{ID: id, N: names[r.Intn(len(names))], A: append([]int{r.Intn(1 << 20)}, genIdxs(r, cnt, len(s.d.Tab))...)}
}

func (s *heapSubj[T]) DoHostile(op Op) {
	switch op.N {
	case "Push":
		if s.c.Size() <= hostileMaxSize {
			s.push(s.vals(op.A[1:])...)
		}
	case "Pop":
		s.pop()
	case "Peek":
		s.c.Peek()
	case "Clear":
		s.c.Clear()
	case "Values":
		s.c.Values()
	case "String":
		_ = s.c.String()
	case "ToJSON":
		s.IO().ToJSON()
		s.IO().MarshalJSON()
	case "Size":
		s.c.Size()
		s.c.Empty()
	case "Sorted":
		containers.GetSortedValuesFunc[T](s.c, s.d.Cmp)
	case "Iter":
		hostileIdxIter[T](s.iter(), op.A[0])
	}
}

func (s *heapSubj[T]) EncodeModel() []byte {
	if s.m == nil {
		return []byte("[]")
	}
	return mustJSON(s.m) // push order, i.e. in general NOT heap order
}
func (s *heapSubj[T]) AdoptModel(from Subject) { s.m = slices.Clone(from.(*heapSubj[T]).m) }

// CheckNow runs the state comparison regardless of the sparse setting.
func (s *heapSubj[T]) CheckNow(o *Oracle) {
	sp := o.Sparse
	o.Sparse = false
	s.check(o)
	o.Sparse = sp
}

// heapFill bounds a bulk prefill at 200 elements: BinaryHeap.Values() re-sorts a whole level per element
// (about n^2 log n comparator calls), so larger heaps would only measure that cost (DESIGN.md, C17).
func heapFill(a []int) []int {
	idx := fillIdx(a)
	if len(idx) > 200 {
		idx = idx[:200]
	}
	return idx
}

// indexOf and samePerm identify elements by their exact rendering, not by ==: for floats == conflates
// -0 and +0, which a sign-aware comparator tells apart.
func (s *heapSubj[T]) indexOf(v T) int {
	k := s.d.Str(v)
	for i, x := range s.m {
		if s.d.Str(x) == k {
			return i
		}
	}
	return -1
}

func (s *heapSubj[T]) samePerm(xs []T) bool {
	if len(xs) != len(s.m) {
		return false
	}
	cnt := map[string]int{}
	for _, x := range s.m {
		cnt[s.d.Str(x)]++
	}
	for _, x := range xs {
		k := s.d.Str(x)
		cnt[k]--
		if cnt[k] < 0 {
			return false
		}
	}
	return true
}
