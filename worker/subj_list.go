package main

import (
	"fmt"
	"math"
	"slices"
	"strconv"

	"github.com/emirpasic/gods/v2/containers"
	"github.com/emirpasic/gods/v2/lists"
	"github.com/emirpasic/gods/v2/lists/arraylist"
	"github.com/emirpasic/gods/v2/lists/doublylinkedlist"
	"github.com/emirpasic/gods/v2/lists/singlylinkedlist"
)

var listKinds = []string{"arraylist", "singlylinkedlist", "doublylinkedlist"}

var listNames = map[string]string{"arraylist": "ArrayList", "singlylinkedlist": "SinglyLinkedList", "doublylinkedlist": "DoublyLinkedList"}

type listSubj[T comparable] struct {
	cfg      Cfg
	d        *Dom[T]
	l        lists.List[T]
	m        []T
	scribble bool // C16: the simulated caller overwrites every slice it passed right after the call
	lastArgs  []T    // copy of the slice last built by vals()
	argDamage string // first difference a callee left in a slice passed to it
	garbage  T
}

type appender[T any] interface {
	Append(values ...T)
	Prepend(values ...T)
}
type indexOfer[T any] interface{ IndexOf(value T) int }

func makeList[T comparable](kind string, vs ...T) lists.List[T] {
	switch kind {
	case "arraylist":
		return arraylist.New[T](vs...)
	case "singlylinkedlist":
		return singlylinkedlist.New[T](vs...)
	case "doublylinkedlist":
		return doublylinkedlist.New[T](vs...)
	}
	panic("unknown list kind " + kind)
}

func newListSubj[T comparable](cfg Cfg, d *Dom[T]) *listSubj[T] {
	return &listSubj[T]{cfg: cfg, d: d, l: makeList[T](cfg.Kind), garbage: d.Probes[0]}
}

func (s *listSubj[T]) SetScribble(b bool) { s.scribble = b }
func (s *listSubj[T]) Kind() string       { return s.cfg.Kind }
func (s *listSubj[T]) Family() string     { return "list" }
func (s *listSubj[T]) Config() Cfg        { return s.cfg }
func (s *listSubj[T]) Real() any          { return s.l }
func (s *listSubj[T]) IO() jsonIO         { return s.l.(jsonIO) }
func (s *listSubj[T]) ModelSize() int     { return len(s.m) }
func (s *listSubj[T]) Fresh() Subject {
	n := newListSubj(s.cfg, s.d)
	n.scribble = s.scribble
	return n
}

func (s *listSubj[T]) vals(idx []int) []T {
	out := make([]T, len(idx), len(idx)+3) // spare capacity: a callee that appends would show
	for i, k := range idx {
		out[i] = s.d.At(k)
	}
	if s.scribble {
		s.lastArgs = slices.Clone(out)
	}
	return out
}

// ArgDamage reports (once) what a callee did to a slice passed to it: the caller's slice, including its
// spare capacity, must read the same after the call as before (C16).
func (s *listSubj[T]) ArgDamage() string { d := s.argDamage; s.argDamage = ""; return d }

func (s *listSubj[T]) afterCall(vs []T) {
	if !s.scribble {
		return
	}
	if dmg := argDamage(vs, s.lastArgs, s.d.Str); dmg != "" && s.argDamage == "" {
		s.argDamage = dmg
	}
	for i := range vs {
		vs[i] = s.garbage
	}
	vs = append(vs, s.garbage, s.garbage)
	_ = vs
}

var listRoles = []string{"mixed", "grower", "shrinker", "mixed", "refill"}

func (s *listSubj[T]) Roles() []string { return listRoles }

func (s *listSubj[T]) GenOp(r *Rng, id int, c *Client) Op {
	size := len(s.m)
	dom := len(s.d.Tab)
	hasApp := s.cfg.Kind != "arraylist"
	w := []int{10, 4, 4, 10, 8, 6, 5, 2, 1, 0}
	if !hasApp {
		w[1], w[2] = 0, 0
	}
	if size > 0 && size <= 24 && s.cfg.Mode != "big" {
		w[9] = 1 // the list's own Values() handed back to it
	}
	switch c.Role {
	case "grower":
		w[4], w[8] = 2, 0
	case "shrinker":
		w[0], w[3], w[4] = 3, 3, 25
	}
	limit := 40
	if s.cfg.Mode == "big" {
		limit = s.cfg.Dom // large-size runs: cross the array list's grow (x2) and shrink (25%) thresholds at scale
	}
	if size > limit {
		w[4] = 30
	}
	if c.Role == "refill" { // fill, clear, refill to about the previous size, then remove around the middle
		c.Cursor++
		k := 8 + c.Cursor/64%4*8
		switch ph := c.Cursor % (2*k + 6); {
		case ph < k || (ph > k && ph <= 2*k):
			return Op{ID: id, N: "Add", A: genIdxs(r, 1+r.Intn(3), dom)}
		case ph == k:
			return Op{ID: id, N: "Clear"}
		default:
			return Op{ID: id, N: "Remove", A: []int{size / 2}}
		}
	}
	switch r.Weighted(w...) {
	case 0:
		return Op{ID: id, N: "Add", A: genIdxs(r, genCount(r), dom)}
	case 1:
		return Op{ID: id, N: "Append", A: genIdxs(r, genCount(r), dom)}
	case 2:
		return Op{ID: id, N: "Prepend", A: genIdxs(r, genCount(r), dom)}
	case 3:
		return Op{ID: id, N: "Insert", A: append([]int{genPos(r, size)}, genIdxs(r, genCount(r), dom)...)}
	case 4:
		return Op{ID: id, N: "Remove", A: []int{genPos(r, size)}}
	case 5:
		return Op{ID: id, N: "Set", A: []int{genPos(r, size), r.Intn(dom)}}
	case 6:
		return Op{ID: id, N: "Swap", A: []int{genPos(r, size), genPos(r, size)}}
	case 7:
		if r.P(1, 3) {
			return Op{ID: id, N: "SortRev"} // by the reversed comparator: after a Sort the list is met in exactly the opposite order
		}
		return Op{ID: id, N: "Sort"}
	case 9:
		if hasApp && r.P(1, 3) {
			return Op{ID: id, N: "PrependOwn"}
		}
		if r.P(1, 2) {
			return Op{ID: id, N: "InsertOwn", A: []int{genPos(r, size)}}
		}
		return Op{ID: id, N: "AddOwn"}
	}
	return Op{ID: id, N: "Clear"}
}

func inRange(i, n int) bool { return i >= 0 && i < n }

func (s *listSubj[T]) ModelApply(op Op) {
	a := op.A
	switch op.N {
	case "Add", "Append":
		s.m = append(s.m, s.vals(a)...)
	case "Prepend":
		s.m = append(s.vals(a), s.m...)
	case "Insert":
		if len(a) > 0 && a[0] >= 0 && a[0] <= len(s.m) {
			s.m = slices.Insert(slices.Clone(s.m), a[0], s.vals(a[1:])...)
		}
	case "Remove":
		if inRange(a[0], len(s.m)) {
			s.m = slices.Delete(slices.Clone(s.m), a[0], a[0]+1)
		}
	case "Set":
		if inRange(a[0], len(s.m)) {
			s.m = slices.Clone(s.m)
			s.m[a[0]] = s.d.At(a[1])
		} else if a[0] == len(s.m) {
			s.m = append(slices.Clone(s.m), s.d.At(a[1]))
		}
	case "Swap":
		if inRange(a[0], len(s.m)) && inRange(a[1], len(s.m)) {
			s.m = slices.Clone(s.m)
			s.m[a[0]], s.m[a[1]] = s.m[a[1]], s.m[a[0]]
		}
	case "Sort":
		s.m = slices.Clone(s.m)
		slices.SortStableFunc(s.m, s.d.Cmp)
	case "SortRev":
		s.m = slices.Clone(s.m)
		slices.SortStableFunc(s.m, func(a, b T) int { return s.d.Cmp(b, a) })
	case "Clear":
		s.m = nil
	case "Churn": // (pairs that cancel out)
	case "AddOwn":
		s.m = append(slices.Clone(s.m), s.m...)
	case "PrependOwn":
		s.m = append(slices.Clone(s.m), s.m...)
	case "InsertOwn":
		if a[0] >= 0 && a[0] <= len(s.m) {
			s.m = slices.Insert(slices.Clone(s.m), a[0], slices.Clone(s.m)...)
		}
	case "Fill":
		s.m = append(slices.Clone(s.m), s.vals(fillIdx(a))...)
	case "Shrink": // remove from the end until a[0] elements are left
		if len(s.m) > a[0] {
			s.m = slices.Clone(s.m[:a[0]])
		}
	case "New":
		s.m = s.vals(a)
	default:
		panic("list model: unknown op " + op.N)
	}
}

func (s *listSubj[T]) Step(op Op, o *Oracle) {
	o.cur = op
	o.Kind = s.cfg.Kind
	a := op.A
	switch op.N {
	case "Add":
		vs := s.vals(a)
		s.l.Add(vs...)
		s.afterCall(vs)
	case "Append":
		vs := s.vals(a)
		s.l.(appender[T]).Append(vs...)
		s.afterCall(vs)
	case "Prepend":
		vs := s.vals(a)
		s.l.(appender[T]).Prepend(vs...)
		s.afterCall(vs)
	case "Insert":
		vs := s.vals(a[1:])
		s.l.Insert(a[0], vs...)
		s.afterCall(vs)
	case "Remove":
		s.l.Remove(a[0])
	case "Set":
		s.l.Set(a[0], s.d.At(a[1]))
	case "Swap":
		s.l.Swap(a[0], a[1])
	case "Sort", "SortRev":
		before := slices.Clone(s.m)
		// (both comparators are closures of one factory: they share a code pointer and differ in what they captured)
		cmp := dirOf(s.d.Cmp, op.N == "SortRev")
		s.l.Sort(cmp)
		// ties: any non-decreasing permutation of the previous content is legal; the model adopts it
		got := s.l.Values()
		if o.On("C03") {
			if !isPermutation(before, got) {
				o.Fail("C03", "sort-permutation", "Sort changed the multiset: before %s after %s", joinS(before, s.d.Str), joinS(got, s.d.Str))
			}
			for i := 1; i < len(got); i++ {
				if cmp(got[i-1], got[i]) > 0 {
					o.Fail("C03", "sort-order", "Sort left %s before %s (cmp %s): %s", s.d.Str(got[i-1]), s.d.Str(got[i]), s.d.CmpName, joinS(got, s.d.Str))
					break
				}
			}
		}
		if isPermutation(before, got) {
			s.m = got
			s.check(o)
			return
		}
	case "Clear":
		s.l.Clear()
	case "Churn": // op.A[0] pairs of an insertion and the removal that undoes it, at the end and at the front in turn
		for i := 0; i < op.A[0]; i++ {
			x := s.d.At((op.A[1] + i) % len(s.d.Tab))
			if i%2 == 0 {
				s.l.Add(x)
				s.l.Remove(len(s.m))
			} else {
				s.l.Insert(0, x)
				s.l.Remove(0)
			}
			if got := s.l.Size(); got != len(s.m) && o.On("C03") {
				o.Fail("C03", "size", "pair %d of a long run of insertions each undone by a removal: Size()=%d, want %d", i, got, len(s.m))
				break
			}
			if i%512 == 0 {
				opSteps = 0
			}
		}
	case "AddOwn", "PrependOwn", "InsertOwn":
		// the slice Values() returned is handed straight back (the caller's data, like any other argument)
		vs := ownArgs(s.l.Values())
		if s.scribble {
			s.lastArgs = slices.Clone(vs)
		}
		switch ap, ok := s.l.(appender[T]); {
		case op.N == "PrependOwn" && ok:
			ap.Prepend(vs...)
		case op.N == "InsertOwn":
			s.l.Insert(a[0], vs...)
		default:
			s.l.Add(vs...)
		}
		s.afterCall(vs)
	case "Fill":
		s.l.Add(s.vals(fillIdx(a))...)
	case "Shrink":
		for n := len(s.m); n > a[0]; n-- {
			s.l.Remove(n - 1)
		}
	case "New":
		vs := s.vals(a)
		s.l = makeList[T](s.cfg.Kind, vs...)
		s.afterCall(vs)
	default:
		panic("list: unknown op " + op.N)
	}
	s.ModelApply(op)
	s.check(o)
}

func isPermutation[T comparable](a, b []T) bool {
	if len(a) != len(b) {
		return false
	}
	cnt := map[T]int{}
	for _, x := range a {
		cnt[x]++
	}
	for _, x := range b {
		cnt[x]--
		if cnt[x] < 0 {
			return false
		}
	}
	return true
}

func (s *listSubj[T]) check(o *Oracle) {
	if o.Sparse {
		return
	}
	if len(o.Active) == 0 {
		return // C18 write phases: no observer may run on the container (it would warm lazily built state)
	}
	if derive(o.cur.ID, 91, 2) == 1 && o.On("C03") {
		// the order of the observers varies: every other step a few lookups come before Values(), so that a
		// structure one observer refreshes and another one uses is met stale
		io := s.l.(indexOfer[T])
		for j := 0; j < 3; j++ {
			v := s.d.At(derive(o.cur.ID, 92+j, len(s.d.Tab)))
			if got, want := io.IndexOf(v), slices.Index(s.m, v); got != want {
				o.Fail("C03", "indexof", "after %s (asked before Values()): IndexOf(%s)=%d, want %d", o.cur, s.d.Str(v), got, want)
			}
			if got, want := s.l.Contains(v), slices.Contains(s.m, v); got != want {
				o.Fail("C03", "contains", "after %s (asked before Values()): Contains(%s)=%v, want %v", o.cur, s.d.Str(v), got, want)
			}
			i := derive(o.cur.ID, 95+j, len(s.m)+1)
			gv, ok := s.l.Get(i)
			if wok := i < len(s.m); ok != wok || (ok && !sameElem(s.d, gv, s.m[i])) {
				o.Fail("C03", "get", "after %s (asked before Values()): Get(%d)=(%s,%v), model %s", o.cur, i, s.d.Str(gv), ok, joinS(s.m, s.d.Str))
			}
		}
	}
	vals := s.l.Values()
	if o.On("C03") || o.On("C16") {
		tag := "C03"
		if !o.On("C03") {
			tag = "C16"
		}
		if !sameSeq(s.d, vals, s.m) {
			o.Fail(tag, "values", "after %s: Values()=%s, sequence model=%s", o.cur, joinS(vals, s.d.Str), joinS(s.m, s.d.Str))
		}
	}
	if o.On("C03") {
		o.Eq("C03", "size", s.l.Size(), len(s.m))
		for i := -1; i <= len(s.m); i++ {
			if s.cfg.Mode == "big" && i > 8 && i < len(s.m)-8 && (i+o.cur.ID)%max(41, len(s.m)/48) != 0 {
				continue
			}
			v, ok := s.l.Get(i)
			var wv T
			wok := inRange(i, len(s.m))
			if wok {
				wv = s.m[i]
			}
			if ok != wok || !sameElem(s.d, v, wv) {
				o.Fail("C03", "get", "after %s: Get(%d)=(%s,%v), want (%s,%v)", o.cur, i, s.d.Str(v), ok, s.d.Str(wv), wok)
			}
		}
		for _, i := range []int{math.MinInt, math.MaxInt} {
			if _, ok := s.l.Get(i); ok {
				o.Fail("C03", "get", "after %s: Get(%d) reports found", o.cur, i)
			}
		}
		io := s.l.(indexOfer[T])
		for _, v := range probeTab(s.d.Tab, s.cfg, o.cur.ID) {
			if got, want := io.IndexOf(v), slices.Index(s.m, v); got != want {
				o.Fail("C03", "indexof", "after %s: IndexOf(%s)=%d, want %d", o.cur, s.d.Str(v), got, want)
			}
			if got, want := s.l.Contains(v), slices.Contains(s.m, v); got != want {
				o.Fail("C03", "contains", "after %s: Contains(%s)=%v, want %v", o.cur, s.d.Str(v), got, want)
			}
		}
		for _, v := range s.d.Probes {
			if got, want := io.IndexOf(v), slices.Index(s.m, v); got != want {
				o.Fail("C03", "indexof", "after %s: IndexOf(%s)=%d, want %d", o.cur, s.d.Str(v), got, want)
			}
		}
		if !s.l.Contains() {
			o.Fail("C03", "contains-empty", "after %s: Contains() with no arguments is false", o.cur)
		}
		// a derived multi-argument query
		n := derive(o.cur.ID, 1, 6)
		others := 4 // one argument in four is an arbitrary table element
		if derive(o.cur.ID, 2, 6) == 0 {
			n = 30 + derive(o.cur.ID, 3, 20) // a long argument list, nearly all members
			others = 24
		}
		q := make([]T, n)
		want := true
		for i := range q {
			if len(s.m) > 0 && derive(o.cur.ID, 20+i, others) > 0 {
				q[i] = s.m[derive(o.cur.ID, 30+i, len(s.m))] // members, often repeated, often more of them than the list is long
			} else {
				q[i] = s.d.At(derive(o.cur.ID, 10+i, len(s.d.Tab)))
			}
			want = want && slices.Contains(s.m, q[i])
		}
		if got := s.l.Contains(q...); got != want {
			o.Fail("C03", "contains-multi", "after %s: Contains(%s)=%v, want %v", o.cur, joinS(q, s.d.Str), got, want)
		}
		if len(vals) == len(s.m) && len(vals) <= 300 && derive(o.cur.ID, 7, 4) == 0 {
			// the list's own Values() handed back: all present; the same arguments with one stranger among them
			if !s.l.Contains(vals...) {
				o.Fail("C03", "contains-multi", "after %s: Contains(Values()...) is false; Values() = %s", o.cur, joinS(vals, s.d.Str))
			}
			for _, x := range s.d.Probes {
				if !slices.Contains(s.m, x) {
					mixed := slices.Insert(slices.Clone(vals), derive(o.cur.ID, 8, len(vals)+1), x)
					if s.l.Contains(mixed...) {
						o.Fail("C03", "contains-multi", "after %s: Contains(%s) is true, %s is not in the list", o.cur, joinS(mixed, s.d.Str), s.d.Str(x))
					}
					break
				}
			}
		}
	}
	checkC15(o, s.l, len(vals), -1, listNames[s.cfg.Kind])
}

func (s *listSubj[T]) Obs() string {
	vals := s.l.Values()
	return fmt.Sprintf("size=%d empty=%v values=%s", s.l.Size(), s.l.Empty(), joinS(vals, s.d.Str))
}

func (s *listSubj[T]) ObsJSON() string { return s.Obs() + " json=" + jsonText(s.IO()) }

func (s *listSubj[T]) ModelObs() string {
	return fmt.Sprintf("size=%d empty=%v values=%s", len(s.m), len(s.m) == 0, joinS(s.m, s.d.Str))
}

func (s *listSubj[T]) LoadModel(b []byte) bool {
	xs, ok := refDecodeSlice[T](b)
	if !ok {
		return false
	}
	s.m = xs
	return true
}

func (s *listSubj[T]) CheckLoaded(o *Oracle, tag string) {
	if got, want := s.Obs(), s.ModelObs(); got != want {
		o.Fail(tag, "loaded-content", "after %s: container %s, input denotes %s", o.cur, got, want)
	}
}

func (s *listSubj[T]) Drain() string { return "" }

// ---- iterators / enumerables -------------------------------------------------------------------

func listIter[T comparable](l lists.List[T]) containers.IteratorWithIndex[T] {
	switch l := l.(type) {
	case *arraylist.List[T]:
		return l.Iterator()
	case *singlylinkedlist.List[T]:
		return l.Iterator()
	case *doublylinkedlist.List[T]:
		it := l.Iterator()
		return &it
	}
	panic("listIter")
}

// ---- read-only catalogue (C18) -----------------------------------------------------------------

var listReads = []string{"Get", "Contains", "IndexOf", "Size", "Empty", "Values", "String", "ToJSON", "Walk", "WalkBack", "NextTo", "Each", "Any", "All", "Find", "Select", "Map", "Sorted", "MarshalJSON"}

func (s *listSubj[T]) GenRead(r *Rng, id int) Op {
	n := listReads[r.Intn(len(listReads))]
	return Op{ID: id, N: n, A: []int{genPos(r, len(s.m)), r.Intn(len(s.d.Tab)), r.Intn(7)}}
}

func (s *listSubj[T]) DoRead(op Op) string {
	a := op.A
	d := s.d
	switch op.N {
	case "Get":
		v, ok := s.l.Get(a[0])
		return fmt.Sprintf("%s,%v", d.Str(v), ok)
	case "Contains":
		if a[2] == 6 { // a long argument list
			many := make([]T, 33+a[1]%16)
			for j := range many {
				many[j] = d.At(a[1] + j*(1+a[0]&1))
			}
			return strconv.FormatBool(s.l.Contains(many...))
		}
		if a[2] == 5 { // one argument slice shared by all callers (spread): read-only calls only read it
			sh := sharedArgs(d)
			return strconv.FormatBool(s.l.Contains(sh[:2+a[1]%(len(sh)-1)]...))
		}
		return strconv.FormatBool(s.l.Contains(d.At(a[1]), d.At(a[1]+a[2])))
	case "IndexOf":
		return strconv.Itoa(s.l.(indexOfer[T]).IndexOf(d.At(a[1])))
	case "Size":
		return strconv.Itoa(s.l.Size())
	case "Empty":
		return strconv.FormatBool(s.l.Empty())
	case "Values":
		return joinS(s.l.Values(), d.Str)
	case "String":
		return s.l.String()
	case "ToJSON":
		return jsonText(s.IO())
	case "MarshalJSON":
		b, err := s.IO().MarshalJSON()
		return string(b) + fmtErr(err)
	case "Sorted":
		return joinS(containers.GetSortedValuesFunc[T](s.l, d.Cmp), d.Class)
	}
	return readIdx[T](op, d, func() containers.IteratorWithIndex[T] { return listIter(s.l) }, listEnum[T](s.l))
}

// ---- hostile catalogue (C17) -------------------------------------------------------------------

func hostPos(r *Rng, size int) int {
	if r.P(1, 2) {
		return hostileInts[r.Intn(len(hostileInts))]
	}
	return genPos(r, size)
}

func (s *listSubj[T]) GenHostile(r *Rng, id int) Op {
	size := len(s.m) // the model is not maintained in the hostile world; sizes are read from the real container at execution
	_ = size
	names := []string{"Add", "Append", "Prepend", "Insert", "Remove", "Set", "Swap", "Sort", "Clear", "Get", "Contains", "IndexOf", "Values", "String", "ToJSON", "Iter", "Enum", "Sorted", "Size"}
	n := names[r.Intn(len(names))]
	cnt := genCount(r)
	if r.P(1, 12) {
		cnt = r.Range(10, 64)
	}
	a := []int{hostileInts[r.Intn(len(hostileInts))], hostileInts[r.Intn(len(hostileInts))], r.Intn(1 << 20)}
	if r.P(1, 2) {
		a[0] = r.Range(-2, 12)
		a[1] = r.Range(-2, 12)
	}
	a = append(a, genIdxs(r, cnt, len(s.d.Tab))...)
	return Op{ID: id, N: n, A: a}
}

const hostileMaxSize = 256

func (s *listSubj[T]) DoHostile(op Op) {
	a := op.A
	d := s.d
	vs := s.vals(a[3:])
	grow := s.l.Size() <= hostileMaxSize
	switch op.N {
	case "Add":
		if grow {
			s.l.Add(vs...)
		}
	case "Append":
		if ap, ok := s.l.(appender[T]); ok && grow {
			ap.Append(vs...)
		}
	case "Prepend":
		if ap, ok := s.l.(appender[T]); ok && grow {
			ap.Prepend(vs...)
		}
	case "Insert":
		if grow {
			s.l.Insert(a[0], vs...)
		}
	case "Remove":
		s.l.Remove(a[0])
	case "Set":
		s.l.Set(a[0], d.At(a[2]))
	case "Swap":
		s.l.Swap(a[0], a[1])
	case "Sort":
		s.l.Sort(d.Cmp)
	case "Clear":
		s.l.Clear()
	case "Get":
		s.l.Get(a[0])
	case "Contains":
		s.l.Contains(vs...)
	case "IndexOf":
		s.l.(indexOfer[T]).IndexOf(d.At(a[2]))
	case "Values":
		s.l.Values()
	case "String":
		_ = s.l.String()
	case "ToJSON":
		s.IO().ToJSON()
		s.IO().MarshalJSON()
	case "Size":
		s.l.Size()
		s.l.Empty()
	case "Sorted":
		containers.GetSortedValuesFunc[T](s.l, d.Cmp)
	case "Iter":
		hostileIdxIter[T](listIter(s.l), a[2])
	case "Enum":
		hostileIdxEnum[T](listEnum[T](s.l), a[2], d)
	}
}

func (s *listSubj[T]) EncodeModel() []byte {
	if s.m == nil {
		return []byte("[]")
	}
	return mustJSON(s.m)
}
func (s *listSubj[T]) AdoptModel(from Subject) { s.m = slices.Clone(from.(*listSubj[T]).m) }

// CheckNow runs the state comparison regardless of the sparse setting.
func (s *listSubj[T]) CheckNow(o *Oracle) {
	sp := o.Sparse
	o.Sparse = false
	s.check(o)
	o.Sparse = sp
}
