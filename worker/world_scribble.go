package main

import (
	"strings"
	"cmp"
	"fmt"
	"math"
	"reflect"
	"slices"

	"github.com/emirpasic/gods/v2/containers"
	"github.com/emirpasic/gods/v2/lists/arraylist"
	"github.com/emirpasic/gods/v2/sets/treeset"
	"github.com/emirpasic/gods/v2/trees/binaryheap"
)

// C16: returned slices are snapshots and argument slices are copied. The fault of this world is the
// interfering caller (seam S5): it keeps every slice it got from Values()/Keys() and every slice
// it passed, and at seeded moments scribbles on them (overwrite, append within spare capacity).

type Scribbler interface{ SetScribble(bool) }

type SortedSubject interface{ SortedProbe(o *Oracle) }

func sortedProbe[T comparable](o *Oracle, c containers.Container[T], d *Dom[T], obs func() string) {
	before := obs()
	vals := c.Values()
	got := containers.GetSortedValuesFunc[T](c, d.Cmp)
	if !isPermutation(got, vals) {
		o.Fail("C16", "sorted-content", "GetSortedValuesFunc returned %s, contents are %s", joinS(got, d.Str), joinS(vals, d.Str))
	}
	for i := 1; i < len(got); i++ {
		if d.Cmp(got[i-1], got[i]) > 0 {
			o.Fail("C16", "sorted-order", "GetSortedValuesFunc result not sorted under %s: %s", d.CmpName, joinS(got, d.Str))
			break
		}
	}
	// the caller owns the result: writing to it must not reach the container
	for i := range got {
		got[i] = d.Probes[0]
	}
	if after := obs(); after != before {
		o.Fail("C16", "sorted-altered-container", "GetSortedValuesFunc (or writing to its result) altered the container:\n before %s\n after  %s", before, after)
	}
}

func sortedProbeOrdered[T cmp.Ordered](o *Oracle, c containers.Container[T], obs func() string) {
	before := obs()
	vals := c.Values()
	got := containers.GetSortedValues[T](c)
	want := slices.Clone(vals)
	slices.Sort(want)
	if !slices.Equal(got, want) {
		o.Fail("C16", "sorted-content", "GetSortedValues returned %v, want %v", got, want)
	}
	var zero T
	for i := range got {
		got[i] = zero
	}
	if after := obs(); after != before {
		o.Fail("C16", "sorted-altered-container", "GetSortedValues (or writing to its result) altered the container:\n before %s\n after  %s", before, after)
	}
}

func orderedProbe[T comparable](o *Oracle, c containers.Container[T], obs func() string) {
	switch cc := any(c).(type) {
	case containers.Container[int]:
		sortedProbeOrdered[int](o, cc, obs)
	case containers.Container[string]:
		sortedProbeOrdered[string](o, cc, obs)
	}
}

func (s *listSubj[T]) SortedProbe(o *Oracle) {
	sortedProbe[T](o, s.l, s.d, s.ObsJSON)
	orderedProbe[T](o, s.l, s.ObsJSON)
}
func (s *setSubj[T]) SortedProbe(o *Oracle) {
	sortedProbe[T](o, s.s, s.d, s.ObsJSON)
	orderedProbe[T](o, s.s, s.ObsJSON)
	if s.cfg.Kind == "treeset" {
		siblingSortProbe[T](o, s.d, "TreeSet", s.s.Values(), func(c func(a, b T) int, vs []T) containers.Container[T] { return treeset.NewWith[T](c, vs...) })
	}
}

// dirOf makes comparators that order by c, forwards or backwards. Every closure it returns shares one code
// pointer whatever it captured: "the same function" by reflect's Pointer() is not "the same comparator".
//
//go:noinline
func dirOf[T any](c func(a, b T) int, backwards bool) func(a, b T) int {
	return func(a, b T) int {
		if backwards {
			return c(b, a)
		}
		return c(a, b)
	}
}

// siblingSortProbe: a container ordered by one closure of a factory is sorted with another closure of the same
// factory that orders the other way: GetSortedValuesFunc must follow the comparator it is given.
func siblingSortProbe[T comparable](o *Oracle, d *Dom[T], name string, vals []T, mk func(func(a, b T) int, []T) containers.Container[T]) {
	if len(vals) < 2 || o.Failed() {
		return
	}
	c := mk(dirOf(d.Cmp, false), vals)
	back := dirOf(d.Cmp, true)
	got := containers.GetSortedValuesFunc[T](c, back)
	if !isPermutation(got, c.Values()) {
		o.Fail("C16", "sorted-content", "GetSortedValuesFunc over a %s returned %s, contents are %s", name, joinS(got, d.Str), joinS(c.Values(), d.Str))
		return
	}
	for i := 1; i < len(got); i++ {
		if back(got[i-1], got[i]) > 0 {
			o.Fail("C16", "sorted-order", "GetSortedValuesFunc over a %s ordered by one comparator, called with a comparator that orders the other way (another closure of the same function), returned %s: not sorted by the comparator it was given", name, joinS(got, d.Str))
			return
		}
	}
}
func (s *sqSubj[T]) SortedProbe(o *Oracle) {
	sortedProbe[T](o, s.c, s.d, s.ObsJSON)
	orderedProbe[T](o, s.c, s.ObsJSON)
}
func (s *heapSubj[T]) SortedProbe(o *Oracle) {
	sortedProbe[T](o, s.c, s.d, s.ObsJSON)
	orderedProbe[T](o, s.c, s.ObsJSON)
	siblingSortProbe[T](o, s.d, "BinaryHeap", s.c.Values(), func(c func(a, b T) int, vs []T) containers.Container[T] {
		h := binaryheap.NewWith[T](c)
		h.Push(vs...)
		return h
	})
}
func (s *kvSubj[K]) SortedProbe(o *Oracle) {
	sortedProbeOrdered[string](o, s.m, s.ObsJSON)
}

type snapshot struct {
	what      string
	slice     reflect.Value // the slice the caller holds
	copy      reflect.Value // what it contained when it was returned
	scribbled bool
	takenAt   int
}

func takeSnapshots(real any, at int) []*snapshot {
	var out []*snapshot
	rv := reflect.ValueOf(real)
	for _, name := range []string{"Values", "Keys"} {
		m := rv.MethodByName(name)
		if !m.IsValid() {
			continue
		}
		sl := m.Call(nil)[0]
		cp := reflect.MakeSlice(sl.Type(), sl.Len(), sl.Len())
		reflect.Copy(cp, sl)
		out = append(out, &snapshot{what: name + "()", slice: sl, copy: cp, takenAt: at})
	}
	return out
}

// scribbleOn overwrites the slice (reverse + zero the last element) and appends within spare
// capacity, the way a caller that owns the slice may.
func scribbleOn(sn *snapshot) {
	sl := sn.slice
	n := sl.Len()
	zero := reflect.Zero(sl.Type().Elem())
	for i, j := 0, n-1; i < j; i, j = i+1, j-1 {
		a, b := reflect.ValueOf(sl.Index(i).Interface()), reflect.ValueOf(sl.Index(j).Interface())
		sl.Index(i).Set(b)
		sl.Index(j).Set(a)
	}
	if n > 0 {
		sl.Index(n - 1).Set(zero)
	}
	if sl.Cap() > n {
		ext := sl.Slice(0, sl.Cap())
		for i := n; i < sl.Cap(); i++ {
			ext.Index(i).Set(zero)
		}
	}
	sn.scribbled = true
}

func sameSlice(a, b reflect.Value) bool {
	if a.Len() != b.Len() {
		return false
	}
	for i := 0; i < a.Len(); i++ {
		if !reflect.DeepEqual(a.Index(i).Interface(), b.Index(i).Interface()) {
			return false
		}
	}
	return true
}

type scribbleWorld struct{}

func (w *scribbleWorld) Gen(seed uint64, tier string) *Plan {
	r := NewRng(seed)
	cfg := genCfg(r, allKinds, tier)
	if cfg.Dom > 32 {
		cfg.Dom = 32
	}
	p := &Plan{World: "scribble", Cfg: cfg}
	s := makeSubject(cfg, false)
	roles := s.(Roler).Roles()
	c := &Client{Role: roles[r.Intn(len(roles))]}
	p.Clients = []string{c.Role, "interfering-caller"}
	n := []int{6, 12, 25, 50, 100}[r.Intn(5)]
	fam := familyOf(cfg.Kind)
	first := 0
	if r.P(1, 25) {
		p.Cfg.Dom = []int{32, 256, 1024}[r.Intn(3)]
		s = makeSubject(p.Cfg, false)
		op := genFill(r, 0, 300, 2200)
		s.ModelApply(op)
		p.Ops = append(p.Ops, op)
		first = 1
		n = min(n, 25)
	}
	for id := first; id < n; id++ {
		var op Op
		switch r.Weighted(12, 3, 3, 3, 2, 1, 3) {
		case 0:
			op = s.GenOp(r, id, c)
		case 6: // take the slices and overwrite them at once; nothing is observed before the next operation
			op = Op{ID: id, N: "SnapScribbleNow", C: 1}
		case 1:
			op = Op{ID: id, N: "Snap", C: 1}
		case 2:
			op = Op{ID: id, N: "ScribbleSnap", C: 1}
		case 3:
			op = Op{ID: id, N: "CheckSnap", C: 1}
		case 4:
			op = Op{ID: id, N: "Sorted", C: 1}
		default:
			if fam == "list" || fam == "set" {
				op = Op{ID: id, N: "New", A: genIdxs(r, genCount(r), cfg.Dom)}
			} else {
				op = s.GenOp(r, id, c)
			}
		}
		if op.C == 0 {
			s.ModelApply(op)
		}
		p.Ops = append(p.Ops, op)
	}
	return p
}

func (w *scribbleWorld) Exec(p *Plan, st *RunStats) *Violation {
	attach(p)
	start := stepCount
	s := makeSubject(p.Cfg, false)
	if sc, ok := s.(Scribbler); ok {
		sc.SetScribble(true)
	}
	// "never changes the container": every observer of the other properties is asked, not only Values()
	o := NewOracle("C16", append([]string{"C16"}, followTags...)...)
	o.Kind = p.Cfg.Kind
	var snaps []*snapshot
	scribbles := 0
	same := func(what string) {
		if g, m := s.Obs(), s.ModelObs(); g != m {
			o.Fail("C16", "container-reached", "%s changed the container: observers %s, model %s", what, g, m)
		}
	}
	checkSnaps := func(by string) {
		for _, sn := range snaps {
			if !sn.scribbled && !sameSlice(sn.slice, sn.copy) {
				o.Fail("C16", "snapshot-changed", "the slice returned by %s at op %d was changed by %s: now %v, was %v", sn.what, sn.takenAt, by, sn.slice.Interface(), sn.copy.Interface())
			}
		}
	}
	for i, op := range p.Ops {
		op := op
		st.Ops++
		// a mutation directly followed by the caller taking slices is not observed by the harness in between: the
		// caller's Values()/Keys() is then the first read after the mutation (the one that would build and hand out a memo)
		unobserved := i+1 < len(p.Ops) && strings.HasPrefix(p.Ops[i+1].N, "Snap") && op.C == 0
		safely(o, op, func() {
			o.cur = op
			switch op.N {
			case "Snap":
				snaps = append(snaps, takeSnapshots(s.Real(), op.ID)...)
				if len(snaps) > 16 {
					snaps = snaps[len(snaps)-16:]
				}
			case "SnapScribbleNow":
				for _, sn := range takeSnapshots(s.Real(), op.ID) {
					if sn.slice.Len() > 0 || sn.slice.Cap() > 0 {
						scribbles++
						st.Fault("scribble-returned-slice")
					}
					scribbleOn(sn)
				}
				checkSnaps("the caller's writes to a slice returned later (or an earlier operation)") // two returned slices never share memory
			case "ScribbleSnap":
				for i, sn := range snaps {
					if op.ID%3 == 0 && (i+op.ID/3)%2 == 0 {
						continue // (one time in three only every other slice is written to: the others must not move)
					}
					if !sn.scribbled {
						if sn.slice.Len() > 0 || sn.slice.Cap() > 0 {
							scribbles++
							st.Fault("scribble-returned-slice")
						}
						scribbleOn(sn)
					}
				}
				if op.ID%2 == 0 { // (every other time nothing is observed before the next operation)
					same("writing to slices returned by Values()/Keys()")
				}
				checkSnaps("the caller's writes to (and appends within the capacity of) another returned slice")
			case "CheckSnap":
				checkSnaps("later container operations")
			case "Sorted":
				typedSortedProbe(o, op.ID)
				s.(SortedSubject).SortedProbe(o)
				same("GetSortedValues/GetSortedValuesFunc")
				checkSnaps("GetSortedValues/GetSortedValuesFunc (or an earlier operation)") // a snapshot is the caller's alone: sorting a later one does not reorder it
			default:
				if len(op.A) > 0 && (op.N == "Add" || op.N == "Append" || op.N == "Prepend" || op.N == "Insert" || op.N == "Push" || op.N == "New" || op.N == "Remove") {
					if _, ok := s.(Scribbler); ok && s.ModelSize()+len(op.A) > 0 {
						scribbles++
						st.Fault("scribble-passed-slice")
					}
				}
				o.Sparse = unobserved
				s.Step(op, o) // passed slices are scribbled right after the call, before the comparison
				o.Sparse = false
				if ad, ok := s.(interface{ ArgDamage() string }); ok {
					// "are copied": the callee only reads the caller's slice
					if dmg := ad.ArgDamage(); dmg != "" {
						o.Fail("C16", "argument-modified", "%s changed the slice it was given: %s", op, dmg)
					}
				}
			}
		})
		if traceOn {
			trace("op %d %s -> %016x", op.ID, op.N, hashStr(s.Obs()))
		}
		if o.Failed() {
			break
		}
	}
	if !o.Failed() {
		// final: earlier snapshots still intact, container equals the model
		safely(o, Op{ID: -1, N: "FinalCheck"}, func() {
			o.cur = Op{ID: -1, N: "FinalCheck"}
			for _, sn := range snaps {
				if !sn.scribbled && !sameSlice(sn.slice, sn.copy) {
					o.Fail("C16", "snapshot-changed", "the slice returned by %s at op %d was changed by later container operations: now %v, was %v", sn.what, sn.takenAt, sn.slice.Interface(), sn.copy.Interface())
				}
			}
			same("the run")
		})
	}
	st.Steps = stepCount - start
	st.NonTrivial = scribbles >= 1
	_ = fmt.Sprint
	return o.V
}

// ---- GetSortedValues over other ordered element types ---------------------------------------------------

type celsius float64
type tag string

func eqNaN[T cmp.Ordered](a, b T) bool { return a == b || (a != a && b != b) }

// sortedTyped: containers.GetSortedValues is generic over every ordered type; the worlds' element
// types are int, string and float64, so a few more (float32 and a named float with NaN, small and
// unsigned ints, a named string) are probed here against slices.Sort.
func sortedTyped[T cmp.Ordered](o *Oracle, name string, vals []T) {
	l := arraylist.New[T](vals...)
	got := containers.GetSortedValues[T](l)
	want := slices.Clone(vals)
	slices.Sort(want)
	ok := len(got) == len(want)
	for i := 0; ok && i < len(got); i++ {
		ok = eqNaN(got[i], want[i])
	}
	if !ok {
		o.Fail("C16", "sorted-content", "GetSortedValues over %s elements %v returned %v, want %v", name, vals, got, want)
		return
	}
	after := l.Values()
	for i := range vals {
		if i >= len(after) || !eqNaN(after[i], vals[i]) {
			o.Fail("C16", "sorted-altered-container", "GetSortedValues over %s elements reordered the container: %v -> %v", name, vals, after)
			return
		}
	}
}

func typedSortedProbe(o *Oracle, opID int) {
	n := 2 + derive(opID, 5, 5)
	f32 := make([]float32, n)
	cel := make([]celsius, n)
	i8 := make([]int8, n)
	u16 := make([]uint16, n)
	tg := make([]tag, n)
	for i := 0; i < n; i++ {
		x := derive(opID, 100+i, 9)
		f32[i] = []float32{3, float32(math.NaN()), 1, 2, -1, float32(math.Inf(1)), 0, 7.5, float32(math.Inf(-1))}[x]
		cel[i] = []celsius{3, celsius(math.NaN()), 1, 2, -1, celsius(math.Inf(1)), 0, 7.5, -40}[x]
		i8[i] = []int8{3, -128, 1, 2, -1, 127, 0, 7, -40}[x]
		u16[i] = []uint16{3, 65535, 1, 2, 40000, 127, 0, 7, 256}[x]
		tg[i] = []tag{"b", "", "a", "B", "ab", "z", "é", "A", "~"}[x]
	}
	sortedTyped(o, "float32", f32)
	sortedTyped(o, "named float64", cel)
	sortedTyped(o, "int8", i8)
	sortedTyped(o, "uint16", u16)
	sortedTyped(o, "named string", tg)
	// the exact built-in types a fast path would be written for: bytes up to the type's maximum, words that differ
	// first at byte 8, 9 or 16 (after a machine word or two of common prefix), ints at both ends of their range
	m := 2 + derive(opID, 6, 9)
	u8 := make([]uint8, m)
	st := make([]string, m)
	in := make([]int, m)
	u64 := make([]uint64, m)
	for i := 0; i < m; i++ {
		x := derive(opID, 200+i, 10)
		u8[i] = []uint8{255, 0, 254, 1, 128, 127, 255, 7, 200, 0}[x]
		st[i] = []string{"invoice-3", "invoice-1", "invoice-", "invoice-10", "order-0000000016b", "order-0000000016a", "invoice", "order-000000001", "invoice-2x", ""}[x]
		in[i] = []int{math.MaxInt, math.MinInt, 0, -1, 1, math.MaxInt - 1, math.MinInt + 1, 1 << 32, -(1 << 32), 7}[x]
		u64[i] = []uint64{math.MaxUint64, 0, 1 << 63, 1<<63 - 1, 1<<63 + 1, 1, 1 << 32, 255, 256, math.MaxUint64 - 1}[x]
	}
	sortedTyped(o, "uint8", u8)
	sortedTyped(o, "string", st)
	sortedTyped(o, "int", in)
	sortedTyped(o, "uint64", u64)
}
