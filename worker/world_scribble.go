package main

import (
	"cmp"
	"fmt"
	"reflect"
	"slices"

	"github.com/emirpasic/gods/v2/containers"
)

// C16: returned slices are snapshots and argument slices are copied. The fault of this world is the
// interfering caller (seam S5): it keeps every slice it got from Values()/Keys() and every slice
// it passed, and at seeded moments scribbles on them (overwrite, append within spare capacity).

type Scribbler interface{ SetScribble(bool) }

type SortedSubject interface{ SortedProbe(o *Oracle) }

func sortedProbe[T comparable](o *Oracle, c containers.Container[T], d *Dom[T], obs func() string) {
	before := obs()
	vals := c.Values()
	got := containers.GetSortedValuesFunc[T](c, d.Cmp)
	if !isPermutation(got, vals) {
		o.Fail("C16", "sorted-content", "GetSortedValuesFunc returned %s, contents are %s", joinS(got, d.Str), joinS(vals, d.Str))
	}
	for i := 1; i < len(got); i++ {
		if d.Cmp(got[i-1], got[i]) > 0 {
			o.Fail("C16", "sorted-order", "GetSortedValuesFunc result not sorted under %s: %s", d.CmpName, joinS(got, d.Str))
			break
		}
	}
	// the caller owns the result: writing to it must not reach the container
	for i := range got {
		got[i] = d.Probes[0]
	}
	if after := obs(); after != before {
		o.Fail("C16", "sorted-altered-container", "GetSortedValuesFunc (or writing to its result) altered the container:\n before %s\n after  %s", before, after)
	}
}

func sortedProbeOrdered[T cmp.Ordered](o *Oracle, c containers.Container[T], obs func() string) {
	before := obs()
	vals := c.Values()
	got := containers.GetSortedValues[T](c)
	want := slices.Clone(vals)
	slices.Sort(want)
	if !slices.Equal(got, want) {
		o.Fail("C16", "sorted-content", "GetSortedValues returned %v, want %v", got, want)
	}
	var zero T
	for i := range got {
		got[i] = zero
	}
	if after := obs(); after != before {
		o.Fail("C16", "sorted-altered-container", "GetSortedValues (or writing to its result) altered the container:\n before %s\n after  %s", before, after)
	}
}

func orderedProbe[T comparable](o *Oracle, c containers.Container[T], obs func() string) {
	switch cc := any(c).(type) {
	case containers.Container[int]:
		sortedProbeOrdered[int](o, cc, obs)
	case containers.Container[string]:
		sortedProbeOrdered[string](o, cc, obs)
	}
}

func (s *listSubj[T]) SortedProbe(o *Oracle) {
	sortedProbe[T](o, s.l, s.d, s.ObsJSON)
	orderedProbe[T](o, s.l, s.ObsJSON)
}
func (s *setSubj[T]) SortedProbe(o *Oracle) {
	sortedProbe[T](o, s.s, s.d, s.ObsJSON)
	orderedProbe[T](o, s.s, s.ObsJSON)
}
func (s *sqSubj[T]) SortedProbe(o *Oracle) {
	sortedProbe[T](o, s.c, s.d, s.ObsJSON)
	orderedProbe[T](o, s.c, s.ObsJSON)
}
func (s *heapSubj[T]) SortedProbe(o *Oracle) {
	sortedProbe[T](o, s.c, s.d, s.ObsJSON)
	orderedProbe[T](o, s.c, s.ObsJSON)
}
func (s *kvSubj[K]) SortedProbe(o *Oracle) {
	sortedProbeOrdered[string](o, s.m, s.ObsJSON)
}

type snapshot struct {
	what      string
	slice     reflect.Value // the slice the caller holds
	copy      reflect.Value // what it contained when it was returned
	scribbled bool
	takenAt   int
}

func takeSnapshots(real any, at int) []*snapshot {
	var out []*snapshot
	rv := reflect.ValueOf(real)
	for _, name := range []string{"Values", "Keys"} {
		m := rv.MethodByName(name)
		if !m.IsValid() {
			continue
		}
		sl := m.Call(nil)[0]
		cp := reflect.MakeSlice(sl.Type(), sl.Len(), sl.Len())
		reflect.Copy(cp, sl)
		out = append(out, &snapshot{what: name + "()", slice: sl, copy: cp, takenAt: at})
	}
	return out
}

// scribbleOn overwrites the slice (reverse + zero the last element) and appends within spare
// capacity, the way a caller that owns the slice may.
func scribbleOn(sn *snapshot) {
	sl := sn.slice
	n := sl.Len()
	zero := reflect.Zero(sl.Type().Elem())
	for i, j := 0, n-1; i < j; i, j = i+1, j-1 {
		a, b := reflect.ValueOf(sl.Index(i).Interface()), reflect.ValueOf(sl.Index(j).Interface())
		sl.Index(i).Set(b)
		sl.Index(j).Set(a)
	}
	if n > 0 {
		sl.Index(n - 1).Set(zero)
	}
	if sl.Cap() > n {
		ext := sl.Slice(0, sl.Cap())
		for i := n; i < sl.Cap(); i++ {
			ext.Index(i).Set(zero)
		}
	}
	sn.scribbled = true
}

func sameSlice(a, b reflect.Value) bool {
	if a.Len() != b.Len() {
		return false
	}
	for i := 0; i < a.Len(); i++ {
		if !reflect.DeepEqual(a.Index(i).Interface(), b.Index(i).Interface()) {
			return false
		}
	}
	return true
}

type scribbleWorld struct{}

func (w *scribbleWorld) Gen(seed uint64, tier string) *Plan {
	r := NewRng(seed)
	cfg := genCfg(r, allKinds, tier)
	if cfg.Dom > 32 {
		cfg.Dom = 32
	}
	p := &Plan{World: "scribble", Cfg: cfg}
	s := makeSubject(cfg, false)
	roles := s.(Roler).Roles()
	c := &Client{Role: roles[r.Intn(len(roles))]}
	p.Clients = []string{c.Role, "interfering-caller"}
	n := []int{6, 12, 25, 50, 100}[r.Intn(5)]
	fam := familyOf(cfg.Kind)
	first := 0
	if r.P(1, 25) {
		p.Cfg.Dom = []int{32, 256, 1024}[r.Intn(3)]
		s = makeSubject(p.Cfg, false)
		op := genFill(r, 0, 300, 2200)
		s.ModelApply(op)
		p.Ops = append(p.Ops, op)
		first = 1
		n = min(n, 25)
	}
	for id := first; id < n; id++ {
		var op Op
		switch r.Weighted(12, 3, 3, 3, 2, 1) {
		case 0:
			op = s.GenOp(r, id, c)
		case 1:
			op = Op{ID: id, N: "Snap", C: 1}
		case 2:
			op = Op{ID: id, N: "ScribbleSnap", C: 1}
		case 3:
			op = Op{ID: id, N: "CheckSnap", C: 1}
		case 4:
			op = Op{ID: id, N: "Sorted", C: 1}
		default:
			if fam == "list" || fam == "set" {
				op = Op{ID: id, N: "New", A: genIdxs(r, genCount(r), cfg.Dom)}
			} else {
				op = s.GenOp(r, id, c)
			}
		}
		if op.C == 0 {
			s.ModelApply(op)
		}
		p.Ops = append(p.Ops, op)
	}
	return p
}

func (w *scribbleWorld) Exec(p *Plan, st *RunStats) *Violation {
	attach(p)
	start := stepCount
	s := makeSubject(p.Cfg, false)
	if sc, ok := s.(Scribbler); ok {
		sc.SetScribble(true)
	}
	o := NewOracle("C16", "C16")
	o.Kind = p.Cfg.Kind
	var snaps []*snapshot
	scribbles := 0
	same := func(what string) {
		if g, m := s.Obs(), s.ModelObs(); g != m {
			o.Fail("C16", "container-reached", "%s changed the container: observers %s, model %s", what, g, m)
		}
	}
	for _, op := range p.Ops {
		op := op
		st.Ops++
		safely(o, op, func() {
			o.cur = op
			switch op.N {
			case "Snap":
				snaps = append(snaps, takeSnapshots(s.Real(), op.ID)...)
				if len(snaps) > 16 {
					snaps = snaps[len(snaps)-16:]
				}
			case "ScribbleSnap":
				for _, sn := range snaps {
					if !sn.scribbled {
						if sn.slice.Len() > 0 || sn.slice.Cap() > 0 {
							scribbles++
							st.Fault("scribble-returned-slice")
						}
						scribbleOn(sn)
					}
				}
				same("writing to slices returned by Values()/Keys()")
			case "CheckSnap":
				for _, sn := range snaps {
					if !sn.scribbled && !sameSlice(sn.slice, sn.copy) {
						o.Fail("C16", "snapshot-changed", "the slice returned by %s at op %d was changed by later container operations: now %v, was %v", sn.what, sn.takenAt, sn.slice.Interface(), sn.copy.Interface())
					}
				}
			case "Sorted":
				s.(SortedSubject).SortedProbe(o)
				same("GetSortedValues/GetSortedValuesFunc")
			default:
				if len(op.A) > 0 && (op.N == "Add" || op.N == "Append" || op.N == "Prepend" || op.N == "Insert" || op.N == "Push" || op.N == "New" || op.N == "Remove") {
					if _, ok := s.(Scribbler); ok && s.ModelSize()+len(op.A) > 0 {
						scribbles++
						st.Fault("scribble-passed-slice")
					}
				}
				s.Step(op, o) // passed slices are scribbled right after the call, before the comparison
			}
		})
		if traceOn {
			trace("op %d %s -> %016x", op.ID, op.N, hashStr(s.Obs()))
		}
		if o.Failed() {
			break
		}
	}
	if !o.Failed() {
		// final: earlier snapshots still intact, container equals the model
		safely(o, Op{ID: -1, N: "FinalCheck"}, func() {
			o.cur = Op{ID: -1, N: "FinalCheck"}
			for _, sn := range snaps {
				if !sn.scribbled && !sameSlice(sn.slice, sn.copy) {
					o.Fail("C16", "snapshot-changed", "the slice returned by %s at op %d was changed by later container operations: now %v, was %v", sn.what, sn.takenAt, sn.slice.Interface(), sn.copy.Interface())
				}
			}
			same("the run")
		})
	}
	st.Steps = stepCount - start
	st.NonTrivial = scribbles >= 1
	_ = fmt.Sprint
	return o.V
}
