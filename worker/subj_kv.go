package main

import (
	"cmp"
	"fmt"
	"math"
	"slices"
	"sort"
	"strconv"
	"strings"

	"github.com/emirpasic/gods/v2/containers"
	"github.com/emirpasic/gods/v2/maps"
	"github.com/emirpasic/gods/v2/maps/hashbidimap"
	"github.com/emirpasic/gods/v2/maps/hashmap"
	"github.com/emirpasic/gods/v2/maps/linkedhashmap"
	"github.com/emirpasic/gods/v2/maps/treebidimap"
	"github.com/emirpasic/gods/v2/maps/treemap"
	"github.com/emirpasic/gods/v2/trees/avltree"
	"github.com/emirpasic/gods/v2/trees/btree"
	"github.com/emirpasic/gods/v2/trees/redblacktree"
)

var kvKinds = []string{"hashmap", "treemap", "linkedhashmap", "redblacktree", "avltree", "btree", "hashbidimap", "treebidimap"}

var kvNames = map[string]string{"hashmap": "HashMap", "treemap": "TreeMap", "linkedhashmap": "LinkedHashMap", "redblacktree": "RedBlackTree",
	"avltree": "AVLTree", "btree": "BTree", "hashbidimap": "HashBidiMap", "treebidimap": "TreeBidiMap"}

func kvDiscipline(kind string) string {
	switch kind {
	case "hashmap", "hashbidimap":
		return "hash"
	case "linkedhashmap":
		return "linked"
	}
	return "tree"
}

func kvIsBidi(kind string) bool { return kind == "hashbidimap" || kind == "treebidimap" }
func kvHasCmp(kind string) bool { return kvDiscipline(kind) == "tree" }

type kvEnt[K comparable] struct {
	k K
	v string
}

type kvSubj[K comparable] struct {
	cfg   Cfg
	d     *Dom[K]
	vd    *Dom[string]
	m     maps.Map[K, string]
	ents  []kvEnt[K] // model: live pairs in insertion order
	calls *int64     // comparator call counter (C07 only; nil otherwise)
	vcmp  func(a, b string) int
	kcmp  func(a, b K) int
	loadD []kvEnt[K] // distinct pairs of the last reference decode, member order
	kmemo map[K]string
}

func (s *kvSubj[K]) kclass(k K) string {
	if s.cfg.Elem == "float" { // == conflates -0 and +0 and never finds NaN: no memo
		if kvHasCmp(s.cfg.Kind) || s.cfg.NoNaN {
			return s.d.Class(k)
		}
		return s.d.Str(k)
	}
	if c, ok := s.kmemo[k]; ok {
		return c
	}
	var c string
	if kvHasCmp(s.cfg.Kind) {
		c = s.d.Class(k)
	} else {
		c = s.d.Str(k)
	}
	if s.kmemo == nil {
		s.kmemo = map[K]string{}
	}
	s.kmemo[k] = c
	return c
}

func (s *kvSubj[K]) vclass(v string) string {
	if s.cfg.Kind == "treebidimap" {
		return s.vd.Class(v)
	}
	return strconv.Quote(v)
}

func newKVSubj[K comparable](cfg Cfg, d *Dom[K], vd *Dom[string], count bool) *kvSubj[K] {
	s := &kvSubj[K]{cfg: cfg, d: d, vd: vd}
	s.kcmp, s.vcmp = d.Cmp, vd.Cmp
	if count {
		s.calls = new(int64)
		s.kcmp = func(a, b K) int { *s.calls++; return d.Cmp(a, b) }
		s.vcmp = func(a, b string) int { *s.calls++; return vd.Cmp(a, b) }
	}
	s.m = s.make()
	return s
}

// defaultKV builds the container with New (default comparator) for ordered key types.
func defaultKV[K cmp.Ordered](kind string, order int) any {
	switch kind {
	case "treemap":
		return treemap.New[K, string]()
	case "redblacktree":
		return redblacktree.New[K, string]()
	case "avltree":
		return avltree.New[K, string]()
	case "btree":
		return btree.New[K, string](order)
	case "treebidimap":
		return treebidimap.New[K, string]()
	}
	return nil
}

func (s *kvSubj[K]) make() maps.Map[K, string] {
	if s.cfg.Ctor == "default" && s.calls == nil {
		var zero K
		var c any
		switch any(zero).(type) {
		case int:
			c = defaultKV[int](s.cfg.Kind, s.cfg.Order)
		case string:
			c = defaultKV[string](s.cfg.Kind, s.cfg.Order)
		case float64:
			c = defaultKV[float64](s.cfg.Kind, s.cfg.Order)
		}
		if m, ok := c.(maps.Map[K, string]); ok && m != nil {
			return m
		}
	}
	switch s.cfg.Kind {
	case "hashmap":
		return hashmap.New[K, string]()
	case "treemap":
		return treemap.NewWith[K, string](s.kcmp)
	case "linkedhashmap":
		return linkedhashmap.New[K, string]()
	case "redblacktree":
		return redblacktree.NewWith[K, string](s.kcmp)
	case "avltree":
		return avltree.NewWith[K, string](s.kcmp)
	case "btree":
		return btree.NewWith[K, string](s.cfg.Order, s.kcmp)
	case "hashbidimap":
		return hashbidimap.New[K, string]()
	case "treebidimap":
		return treebidimap.NewWith[K, string](s.kcmp, s.vcmp)
	}
	panic("unknown kv kind " + s.cfg.Kind)
}

func (s *kvSubj[K]) Kind() string   { return s.cfg.Kind }
func (s *kvSubj[K]) Family() string { return "kv" }
func (s *kvSubj[K]) Config() Cfg    { return s.cfg }
func (s *kvSubj[K]) Real() any      { return s.m }
func (s *kvSubj[K]) IO() jsonIO     { return s.m.(jsonIO) }
func (s *kvSubj[K]) ModelSize() int { return len(s.ents) }
func (s *kvSubj[K]) Fresh() Subject { return newKVSubj(s.cfg, s.d, s.vd, s.calls != nil) }
func (s *kvSubj[K]) Drain() string  { return "" }

// samePair: the pair a PutSame writes - the value the key holds already (an identical pair: nothing should change),
// every other time under the very key the model remembers rather than the table's spelling of it.
func (s *kvSubj[K]) samePair(op Op) (K, string) {
	k := s.d.At(op.A[0])
	if i := s.findKey(k); i >= 0 {
		if op.ID%2 == 0 {
			k = s.ents[i].k
		}
		return k, s.ents[i].v
	}
	return k, "v" + strconv.Itoa(op.ID)
}

func (s *kvSubj[K]) val(op Op) string {
	if len(op.A) < 2 || op.A[1] < 0 {
		return "v" + strconv.Itoa(op.ID)
	}
	return s.vd.At(op.A[1])
}

// ---- model ---------------------------------------------------------------------------------------

func (s *kvSubj[K]) findKey(k K) int {
	c := s.kclass(k)
	for i, e := range s.ents {
		if s.kclass(e.k) == c {
			return i
		}
	}
	return -1
}

func (s *kvSubj[K]) findVal(v string) int {
	c := s.vclass(v)
	for i, e := range s.ents {
		if s.vclass(e.v) == c {
			return i
		}
	}
	return -1
}

func (s *kvSubj[K]) modelPut(k K, v string) {
	if kvIsBidi(s.cfg.Kind) {
		if i := s.findKey(k); i >= 0 {
			s.ents = slices.Delete(slices.Clone(s.ents), i, i+1)
		}
		if i := s.findVal(v); i >= 0 {
			s.ents = slices.Delete(slices.Clone(s.ents), i, i+1)
		}
		s.ents = append(slices.Clone(s.ents), kvEnt[K]{k, v})
		return
	}
	if i := s.findKey(k); i >= 0 {
		s.ents = slices.Clone(s.ents)
		s.ents[i] = kvEnt[K]{k, v} // in place: a Put of a present key never moves it
		return
	}
	s.ents = append(slices.Clone(s.ents), kvEnt[K]{k, v})
}

func (s *kvSubj[K]) ModelApply(op Op) {
	switch op.N {
	case "Put":
		s.modelPut(s.d.At(op.A[0]), s.val(op))
	case "PutSame":
		k, v := s.samePair(op)
		s.modelPut(k, v)
	case "Churn": // a stranger comes and goes (model unchanged); one present key is rewritten every time: its last value stands
		if len(s.ents) > 0 && op.A[0] > 0 {
			s.modelPut(s.ents[op.A[1]%len(s.ents)].k, "c"+strconv.Itoa(op.ID)+"."+strconv.Itoa(op.A[0]-1))
		}
	case "Remove":
		if i := s.findKey(s.d.At(op.A[0])); i >= 0 {
			s.ents = slices.Delete(slices.Clone(s.ents), i, i+1)
		}
	case "RemoveAbsent":
		// a probe key that was never inserted; under a coarsened comparator it may still be
		// equivalent to a live key
		if i := s.findKey(s.d.Probes[op.A[0]%len(s.d.Probes)]); i >= 0 {
			s.ents = slices.Delete(slices.Clone(s.ents), i, i+1)
		}
	case "Clear":
		s.ents = nil
	case "Shrink":
		if len(s.ents) > op.A[0] {
			s.ents = slices.Clone(s.ents[:op.A[0]])
		}
	case "Fill":
		if !kvIsBidi(s.cfg.Kind) {
			// linear-time bulk path (the one-by-one model is quadratic): index of classes -> position
			idx := make(map[string]int, len(s.ents))
			ents := slices.Clone(s.ents)
			for i, e := range ents {
				idx[s.kclass(e.k)] = i
			}
			for j, i := range fillIdx(op.A) {
				k, v := s.d.At(i), "f"+strconv.Itoa(op.ID)+"."+strconv.Itoa(j)
				if at, ok := idx[s.kclass(k)]; ok {
					ents[at] = kvEnt[K]{k, v}
				} else {
					idx[s.kclass(k)] = len(ents)
					ents = append(ents, kvEnt[K]{k, v})
				}
			}
			s.ents = ents
			return
		}
		for j, i := range fillIdx(op.A) {
			s.modelPut(s.d.At(i), "f"+strconv.Itoa(op.ID)+"."+strconv.Itoa(j))
		}
	default:
		panic("kv model: unknown op " + op.N)
	}
}

// modelSorted returns the model pairs in the order the container's discipline prescribes.
func (s *kvSubj[K]) modelSorted() []kvEnt[K] {
	es := slices.Clone(s.ents)
	if kvDiscipline(s.cfg.Kind) == "tree" {
		sort.SliceStable(es, func(i, j int) bool { return s.d.Cmp(es[i].k, es[j].k) < 0 })
	}
	return es
}

// ---- generation ----------------------------------------------------------------------------------

var kvRoles = []string{"churn", "ascending", "descending", "zigzag", "hot", "reput", "remover", "absent", "clearer", "sweep"}

func (s *kvSubj[K]) Roles() []string { return kvRoles }

func (s *kvSubj[K]) genVal(r *Rng) int {
	if kvIsBidi(s.cfg.Kind) {
		return r.Intn(len(s.vd.Tab)) // small value table: collisions in every combination
	}
	if r.P(1, 5) {
		return r.Intn(len(s.vd.Tab)) // a value whose text equals a key
	}
	return -1
}

func (s *kvSubj[K]) GenOp(r *Rng, id int, c *Client) Op {
	dom := len(s.d.Tab)
	put := func(k int) Op { return Op{ID: id, N: "Put", A: []int{k, s.genVal(r)}} }
	presentKey := func() (int, bool) {
		if len(s.ents) == 0 {
			return 0, false
		}
		return tabIndex(s.d, s.ents[r.Intn(len(s.ents))].k), true
	}
	switch c.Role {
	case "ascending":
		c.Cursor++
		return put(c.Cursor % dom)
	case "descending":
		c.Cursor++
		return put(dom - 1 - c.Cursor%dom)
	case "zigzag":
		c.Cursor++
		if c.Cursor%2 == 0 {
			return put((c.Cursor / 2) % dom)
		}
		return put(dom - 1 - (c.Cursor/2)%dom)
	case "sweep": // delete in key order, then refill
		c.Cursor++
		if (c.Cursor/dom)%2 == 0 {
			return Op{ID: id, N: "Remove", A: []int{c.Cursor % dom}}
		}
		return put(c.Cursor % dom)
	case "hot":
		k := r.Intn(min(4, dom))
		if r.P(1, 2) {
			return put(k)
		}
		return Op{ID: id, N: "Remove", A: []int{k}}
	case "reput":
		if k, ok := presentKey(); ok {
			if r.P(1, 4) {
				return Op{ID: id, N: "PutSame", A: []int{k}}
			}
			return put(k)
		}
		return put(r.Intn(dom))
	case "remover":
		if k, ok := presentKey(); ok && r.P(4, 5) {
			return Op{ID: id, N: "Remove", A: []int{k}}
		}
		return Op{ID: id, N: "Remove", A: []int{r.Intn(dom)}}
	case "absent":
		if r.P(1, 2) {
			return Op{ID: id, N: "RemoveAbsent", A: []int{r.Intn(len(s.d.Probes))}}
		}
		return Op{ID: id, N: "Remove", A: []int{r.Intn(dom)}}
	case "clearer":
		if r.P(1, 6) {
			return Op{ID: id, N: "Clear"}
		}
		return put(r.Intn(dom))
	}
	// churn
	if k, ok := presentKey(); ok && r.P(1, 20) {
		return Op{ID: id, N: "PutSame", A: []int{k}} // the pair the map holds already
	}
	switch r.Weighted(10, 6, 1) {
	case 0:
		return put(r.Intn(dom))
	case 1:
		if k, ok := presentKey(); ok && r.P(3, 4) {
			return Op{ID: id, N: "Remove", A: []int{k}}
		}
		return Op{ID: id, N: "Remove", A: []int{r.Intn(dom)}}
	}
	if r.P(1, 8) {
		return Op{ID: id, N: "Clear"}
	}
	return put(r.Intn(dom))
}

// ---- execution -------------------------------------------------------------------------------------

func log2(x float64) float64 { return math.Log2(x) }

// workBound is the statement's comparator-call bound for one Get/Put/Remove on a tree with n keys.
func (s *kvSubj[K]) workBound(n int) int {
	fn := float64(n)
	switch s.cfg.Kind {
	case "avltree":
		return int(math.Floor(1.45*log2(fn+2) + 2))
	case "btree":
		m := float64(s.cfg.Order)
		half := math.Ceil(m / 2)
		return int(math.Floor(4 * (log2(m) + 1) * (math.Log(fn+1)/math.Log(half) + 1)))
	}
	return int(math.Floor(2*log2(fn+1) + 2)) // red-black tree, TreeMap, TreeSet, each tree of TreeBidiMap
}

func (s *kvSubj[K]) counted(o *Oracle, what string, treeOps int, f func()) {
	if s.calls == nil {
		f()
		return
	}
	before := s.m.Size()
	*s.calls = 0
	f()
	c := int(*s.calls)
	n := max(before, s.m.Size())
	if b := s.workBound(n) * treeOps; c > b {
		o.Fail("C07", "work-bound", "%s on %s with n=%d keys made %d comparator calls, bound %d (x%d tree operations)", what, s.cfg.Kind, n, c, b, treeOps)
	}
}

func (s *kvSubj[K]) Step(op Op, o *Oracle) {
	o.cur = op
	o.Kind = s.cfg.Kind
	bidi := s.cfg.Kind == "treebidimap"
	switch op.N {
	case "Put":
		k, v := s.d.At(op.A[0]), s.val(op)
		n := 1
		if bidi {
			n = 6
		}
		s.counted(o, "Put", n, func() { s.m.Put(k, v) })
	case "PutSame":
		k, v := s.samePair(op)
		n := 1
		if bidi {
			n = 6
		}
		s.counted(o, "Put", n, func() { s.m.Put(k, v) })
	case "Churn":
		var stranger *K
		for i := range s.d.Probes {
			if s.findKey(s.d.Probes[i]) < 0 && s.kclass(s.d.Probes[i]) == s.kclass(s.d.Probes[i]) {
				stranger = &s.d.Probes[i]
				break
			}
		}
		if s.cfg.VCmp == "len" || s.cfg.VCmp == "fold" {
			return // (never generated: the values written on the way would evict pairs by class)
		}
		for i := 0; i < op.A[0] && s.d.Elem != "float"; i++ {
			v := "c" + strconv.Itoa(op.ID) + "." + strconv.Itoa(i)
			if stranger != nil {
				s.m.Put(*stranger, v+"s")
				s.m.Remove(*stranger)
			}
			if len(s.ents) > 0 {
				s.m.Put(s.ents[op.A[1]%len(s.ents)].k, v)
			}
			if got := s.m.Size(); got != len(s.ents) && (o.On("C01") || o.On("C10")) {
				tag := "C01"
				if !o.On("C01") {
					tag = "C10"
				}
				o.Fail(tag, "size", "round %d of a long run of Put/Remove of an absent key and Put of a present one: Size()=%d, live keys %d", i, got, len(s.ents))
				break
			}
			if i%512 == 0 {
				opSteps = 0
			}
		}
		if s.d.Elem == "float" {
			return
		}
	case "Remove":
		k := s.d.At(op.A[0])
		n := 1
		if bidi {
			n = 3
		}
		s.counted(o, "Remove", n, func() { s.m.Remove(k) })
	case "RemoveAbsent":
		k := s.d.Probes[op.A[0]%len(s.d.Probes)]
		s.counted(o, "Remove", 3, func() { s.m.Remove(k) })
	case "Clear":
		s.m.Clear()
	case "Shrink": // remove all pairs but op.A[0] of them (keys taken from the model: no read of the container)
		if len(s.ents) > op.A[0] {
			for _, e := range s.ents[op.A[0]:] {
				s.m.Remove(e.k)
			}
		}
	case "Fill":
		for j, i := range fillIdx(op.A) {
			s.m.Put(s.d.At(i), "f"+strconv.Itoa(op.ID)+"."+strconv.Itoa(j))
		}
	default:
		panic("kv: unknown op " + op.N)
	}
	s.ModelApply(op)
	if s.calls != nil && o.On("C07") {
		k := s.d.At(derive(op.ID, 3, len(s.d.Tab)))
		s.counted(o, "Get", 1, func() { s.m.Get(k) })
		k2 := s.d.Probes[derive(op.ID, 4, len(s.d.Probes))]
		s.counted(o, "Get(absent)", 1, func() { s.m.Get(k2) })
		if bm, ok := s.m.(maps.BidiMap[K, string]); ok {
			// the value index is a tree over the same n pairs
			v := s.vd.At(derive(op.ID, 5, len(s.vd.Tab)))
			s.counted(o, "GetKey", 1, func() { bm.GetKey(v) })
		}
	}
	s.check(o)
}

type kvNav[K comparable] struct {
	min, max       func() (K, string, bool)
	floor, ceiling func(K) (K, string, bool)
}

func (s *kvSubj[K]) nav() *kvNav[K] {
	switch t := s.m.(type) {
	case *treemap.Map[K, string]:
		return &kvNav[K]{t.Min, t.Max, t.Floor, t.Ceiling}
	case *redblacktree.Tree[K, string]:
		nd := func(n *redblacktree.Node[K, string], ok bool) (k K, v string, f bool) {
			if n == nil != !ok {
				return k, "INCONSISTENT node/found", !ok
			}
			if n == nil {
				return k, "", false
			}
			return n.Key, n.Value, true
		}
		return &kvNav[K]{
			func() (K, string, bool) { n := t.Left(); return nd(n, n != nil) },
			func() (K, string, bool) { n := t.Right(); return nd(n, n != nil) },
			func(k K) (K, string, bool) { return nd(t.Floor(k)) },
			func(k K) (K, string, bool) { return nd(t.Ceiling(k)) }}
	case *avltree.Tree[K, string]:
		nd := func(n *avltree.Node[K, string], ok bool) (k K, v string, f bool) {
			if n == nil != !ok {
				return k, "INCONSISTENT node/found", !ok
			}
			if n == nil {
				return k, "", false
			}
			return n.Key, n.Value, true
		}
		return &kvNav[K]{
			func() (K, string, bool) { n := t.Left(); return nd(n, n != nil) },
			func() (K, string, bool) { n := t.Right(); return nd(n, n != nil) },
			func(k K) (K, string, bool) { return nd(t.Floor(k)) },
			func(k K) (K, string, bool) { return nd(t.Ceiling(k)) }}
	case *btree.Tree[K, string]:
		return &kvNav[K]{
			min: func() (k K, v string, ok bool) {
				lk, lv := t.LeftKey(), t.LeftValue()
				if lk == nil != (lv == nil) {
					return k, "INCONSISTENT LeftKey/LeftValue", true
				}
				if lk == nil {
					return k, "", false
				}
				n := t.Left()
				if n == nil || len(n.Entries) == 0 || s.d.Str(n.Entries[0].Key) != s.d.Str(lk.(K)) {
					return k, "INCONSISTENT Left()/LeftKey()", true
				}
				return lk.(K), lv.(string), true
			},
			max: func() (k K, v string, ok bool) {
				rk, rv := t.RightKey(), t.RightValue()
				if rk == nil != (rv == nil) {
					return k, "INCONSISTENT RightKey/RightValue", true
				}
				if rk == nil {
					return k, "", false
				}
				n := t.Right()
				if n == nil || len(n.Entries) == 0 || s.d.Str(n.Entries[len(n.Entries)-1].Key) != s.d.Str(rk.(K)) {
					return k, "INCONSISTENT Right()/RightKey()", true
				}
				return rk.(K), rv.(string), true
			}}
	}
	return nil
}

func (s *kvSubj[K]) keyIter() containers.IteratorWithKey[K, string] {
	switch t := s.m.(type) {
	case *treemap.Map[K, string]:
		return t.Iterator()
	case *linkedhashmap.Map[K, string]:
		return t.Iterator()
	case *treebidimap.Map[K, string]:
		return t.Iterator()
	case *redblacktree.Tree[K, string]:
		return t.Iterator()
	case *avltree.Tree[K, string]:
		return t.Iterator()
	case *btree.Tree[K, string]:
		return t.Iterator()
	}
	return nil
}

func (s *kvSubj[K]) pairStr(k K, v string) string { return s.kclass(k) + "=" + strconv.Quote(v) }

// FinalCheck is the end-of-run structure walk (C07 samples the walk on large trees).
func (s *kvSubj[K]) FinalCheck(o *Oracle) {
	if o.On("C07") {
		s.checkShape(o)
	}
}

func (s *kvSubj[K]) check(o *Oracle) {
	if o.Sparse && !o.On("C07") {
		return
	}
	if o.On("C07") {
		// the structure walk is O(n): every step on small trees, sampled on large ones
		if n := s.m.Size(); n <= 64 || o.cur.ID%(n/32) == 0 {
			s.checkShape(o)
		}
	}
	if !(o.On("C01") || o.On("C02") || o.On("C09") || o.On("C10") || o.On("C15") || o.On("C16")) {
		return
	}
	if derive(o.cur.ID, 91, 2) == 1 && (o.On("C01") || o.On("C10")) {
		tag := "C01"
		if !o.On("C01") {
			tag = "C10"
		}
		for j := 0; j < 3; j++ { // (observer order varies, see listSubj.check)
			k := s.d.At(derive(o.cur.ID, 92+j, len(s.d.Tab)))
			v, ok := s.m.Get(k)
			wi := s.findKey(k)
			if ok != (wi >= 0) || (ok && v != s.ents[wi].v) {
				o.Fail(tag, "get", "after %s (asked before Keys()/Values()): Get(%s)=(%q,%v), model pair index %d", o.cur, s.d.Str(k), v, ok, wi)
			}
		}
		if got := s.m.Size(); got != len(s.ents) {
			o.Fail(tag, "size", "after %s (asked before Keys()/Values()): Size()=%d, want %d", o.cur, got, len(s.ents))
		}
	}
	keys, vals := s.m.Keys(), s.m.Values()
	disc := kvDiscipline(s.cfg.Kind)
	bidi := kvIsBidi(s.cfg.Kind)
	ms := s.modelSorted()
	if o.On("C01") || o.On("C10") || o.On("C16") {
		tag := "C01"
		if !o.On("C01") {
			tag = "C10"
			if !o.On("C10") {
				tag = "C16"
			}
		}
		if got := s.m.Size(); got != len(s.ents) {
			o.Fail(tag, "size", "after %s: Size()=%d, live keys in model %d", o.cur, got, len(s.ents))
		}
		probe := func(k K) {
			v, ok := s.m.Get(k)
			wv, wok := "", false
			if i := s.findKey(k); i >= 0 {
				wv, wok = s.ents[i].v, true
			}
			if ok != wok || v != wv {
				o.Fail(tag, "get", "after %s: Get(%s)=(%q,%v), want (%q,%v)", o.cur, s.d.Str(k), v, ok, wv, wok)
			}
		}
		for _, k := range probeTab(s.d.Tab, s.cfg, o.cur.ID) {
			probe(k)
		}
		for _, k := range probeTab(s.d.Probes, s.cfg, o.cur.ID) {
			probe(k)
		}
		// Keys()/Values()
		if len(keys) != len(ms) || len(vals) != len(ms) {
			o.Fail(tag, "keys-values-len", "after %s: len(Keys())=%d len(Values())=%d, live pairs %d", o.cur, len(keys), len(vals), len(ms))
		} else if disc != "hash" && s.cfg.Kind != "treebidimap" {
			got := make([]string, len(keys))
			want := make([]string, len(ms))
			for i := range keys {
				got[i] = s.pairStr(keys[i], vals[i])
				want[i] = s.pairStr(ms[i].k, ms[i].v)
			}
			if !slices.Equal(got, want) {
				o.Fail(tag, "keys-values-aligned", "after %s: Keys()/Values() pairs %v, want %v", o.cur, got, want)
			}
		} else {
			gk := sortedStrings(mapS(keys, s.kclass))
			wk := sortedStrings(mapS(ms, func(e kvEnt[K]) string { return s.kclass(e.k) }))
			gv := sortedStrings(mapS(vals, strconv.Quote))
			wv := sortedStrings(mapS(ms, func(e kvEnt[K]) string { return strconv.Quote(e.v) }))
			if !slices.Equal(gk, wk) {
				o.Fail(tag, "keys-set", "after %s: Keys() %v, want %v", o.cur, gk, wk)
			}
			if !slices.Equal(gv, wv) {
				o.Fail(tag, "values-multiset", "after %s: Values() %v, want %v", o.cur, gv, wv)
			}
		}
	}
	if o.On("C10") && bidi {
		bm := s.m.(maps.BidiMap[K, string])
		for _, k := range probeTab(s.d.Tab, s.cfg, o.cur.ID) {
			if v, ok := bm.Get(k); ok {
				k2, ok2 := bm.GetKey(v)
				if !ok2 || s.kclass(k2) != s.kclass(k) {
					o.Fail("C10", "get-getkey", "after %s: Get(%s)=(%q,true) but GetKey(%q)=(%s,%v)", o.cur, s.d.Str(k), v, v, s.d.Str(k2), ok2)
				}
			}
		}
		for _, v := range s.vd.Tab {
			k, ok := bm.GetKey(v)
			wi := s.findVal(v)
			if ok != (wi >= 0) || (ok && s.kclass(k) != s.kclass(s.ents[wi].k)) {
				o.Fail("C10", "getkey", "after %s: GetKey(%q)=(%s,%v), model has pair index %d", o.cur, v, s.d.Str(k), ok, wi)
			}
			if ok {
				v2, ok2 := bm.Get(k)
				if !ok2 || s.vclass(v2) != s.vclass(v) {
					o.Fail("C10", "getkey-get", "after %s: GetKey(%q)=(%s,true) but Get(%s)=(%q,%v)", o.cur, v, s.d.Str(k), s.d.Str(k), v2, ok2)
				}
			}
		}
		seen := map[string]bool{}
		for _, v := range vals {
			c := s.vclass(v)
			if seen[c] {
				o.Fail("C10", "shared-value", "after %s: two keys share value %q: Values()=%q", o.cur, v, vals)
			}
			seen[c] = true
		}
		if s.m.Size() != len(keys) || s.m.Size() != len(vals) {
			o.Fail("C10", "sizes", "after %s: Size()=%d len(Keys())=%d len(Values())=%d", o.cur, s.m.Size(), len(keys), len(vals))
		}
	}
	if o.On("C02") && disc == "tree" {
		s.checkC02(o, keys, vals, ms)
	}
	if o.On("C09") && disc == "linked" {
		s.checkC09(o, keys, vals)
	}
	checkC15(o, s.m, len(vals), len(keys), kvNames[s.cfg.Kind])
}

func (s *kvSubj[K]) checkC02(o *Oracle, keys []K, vals []string, ms []kvEnt[K]) {
	for i := 1; i < len(keys); i++ {
		if s.d.Cmp(keys[i-1], keys[i]) >= 0 {
			o.Fail("C02", "keys-ascending", "after %s: Keys() not strictly ascending under %s at %d: %s", o.cur, s.d.CmpName, i, joinS(keys, s.d.Str))
			break
		}
	}
	if len(keys) != len(ms) {
		o.Fail("C02", "keys-count", "after %s: %d keys enumerated, %d comparator classes live", o.cur, len(keys), len(ms))
		return
	}
	if len(vals) != len(keys) {
		o.Fail("C02", "values-count", "after %s: Values() enumerates %d values, Keys() %d keys", o.cur, len(vals), len(keys))
		return
	}
	for i := range keys {
		if s.kclass(keys[i]) != s.kclass(ms[i].k) {
			o.Fail("C02", "keys-sorted-content", "after %s: Keys()=%s, want classes of %s", o.cur, joinS(keys, s.d.Str), joinS(ms, func(e kvEnt[K]) string { return s.d.Str(e.k) }))
			break
		}
	}
	if s.cfg.Kind == "treebidimap" {
		for i := 1; i < len(vals); i++ {
			if s.vd.Cmp(vals[i-1], vals[i]) >= 0 {
				o.Fail("C02", "values-ascending", "after %s: TreeBidiMap Values() not strictly ascending under value comparator %s: %q", o.cur, s.vd.CmpName, vals)
				break
			}
		}
	}
	// iteration enumerates the same sequence
	if it := s.keyIter(); it != nil {
		i := 0
		for it.Next() {
			if i >= len(keys) || s.d.Str(it.Key()) != s.d.Str(keys[i]) {
				o.Fail("C02", "iterator-sequence", "after %s: iterator element %d is %s, Keys()=%s", o.cur, i, s.d.Str(it.Key()), joinS(keys, s.d.Str))
				break
			}
			wv := vals[i]
			if s.cfg.Kind == "treebidimap" {
				wv = ms[i].v
			}
			if it.Value() != wv {
				o.Fail("C02", "iterator-value", "after %s: iterator value at %d is %q, want %q", o.cur, i, it.Value(), wv)
				break
			}
			i++
		}
		if i != len(keys) && !o.Failed() {
			o.Fail("C02", "iterator-length", "after %s: iterator yielded %d elements, Keys() has %d", o.cur, i, len(keys))
		}
	}
	s.checkNodeNav(o, keys, vals)
	nav := s.nav()
	if nav == nil {
		return
	}
	chk := func(what string, k K, v string, ok bool, want *kvEnt[K]) {
		id := strings.ToLower(what) // the oracle id names the operation, not the probe key
		if i := strings.IndexByte(id, '('); i >= 0 {
			id = id[:i]
		}
		if ok != (want != nil) {
			o.Fail("C02", id, "after %s: %s found=%v (key %s), model says found=%v", o.cur, what, ok, s.d.Str(k), want != nil)
			return
		}
		if ok && (s.kclass(k) != s.kclass(want.k) || v != want.v) {
			o.Fail("C02", id, "after %s: %s=(%s,%q), want (%s,%q)", o.cur, what, s.d.Str(k), v, s.d.Str(want.k), want.v)
		}
	}
	var first, last *kvEnt[K]
	if len(ms) > 0 {
		first, last = &ms[0], &ms[len(ms)-1]
	}
	k, v, ok := nav.min()
	chk("Left/Min", k, v, ok, first)
	k, v, ok = nav.max()
	chk("Right/Max", k, v, ok, last)
	if nav.floor == nil {
		return
	}
	probe := func(p K) {
		var fl, ce *kvEnt[K]
		for i := range ms {
			c := s.d.Cmp(ms[i].k, p)
			if c <= 0 {
				fl = &ms[i]
			}
			if c >= 0 && ce == nil {
				ce = &ms[i]
			}
		}
		k, v, ok := nav.floor(p)
		chk("Floor("+s.d.Str(p)+")", k, v, ok, fl)
		k, v, ok = nav.ceiling(p)
		chk("Ceiling("+s.d.Str(p)+")", k, v, ok, ce)
	}
	for _, p := range probeTab(s.d.Tab, s.cfg, o.cur.ID) {
		probe(p)
	}
	for _, p := range probeTab(s.d.Probes, s.cfg, o.cur.ID) {
		probe(p)
	}
}

func (s *kvSubj[K]) checkC09(o *Oracle, keys []K, vals []string) {
	want := mapS(s.ents, func(e kvEnt[K]) string { return s.pairStr(e.k, e.v) })
	got := make([]string, 0, len(keys))
	for i := range keys {
		if i < len(vals) {
			got = append(got, s.pairStr(keys[i], vals[i]))
		}
	}
	if !slices.Equal(got, want) {
		o.Fail("C09", "keys-values-order", "after %s: Keys()/Values() order %v, insertion order %v", o.cur, got, want)
	}
	lm := s.m.(*linkedhashmap.Map[K, string])
	var itGot, eachGot []string
	for it := lm.Iterator(); it.Next(); {
		itGot = append(itGot, s.pairStr(it.Key(), it.Value()))
	}
	reenter := o.cur.ID%3 == 0 && len(keys) <= 512 // one check in three: the callback reads the map it is enumerating (quadratic: small maps only)
	lm.Each(func(k K, v string) {
		if reenter {
			// (Find first: a nested call that ends exactly on the current element could put a shared
			// cursor back where the outer enumeration expects it)
			lm.Find(func(k2 K, _ string) bool { return k2 == k })
			lm.Values()
			lm.Any(func(K, string) bool { return false })
		}
		eachGot = append(eachGot, s.pairStr(k, v))
	})
	if !slices.Equal(itGot, want) {
		o.Fail("C09", "iterator-order", "after %s: iterator order %v, insertion order %v", o.cur, itGot, want)
	}
	if !slices.Equal(eachGot, want) {
		o.Fail("C09", "each-order", "after %s: Each order %v, insertion order %v", o.cur, eachGot, want)
	}
	if s.cfg.Elem == "float" {
		return // encoding/json does not write maps with float keys: nothing to enumerate
	}
	b, err := lm.ToJSON()
	if err != nil {
		o.Fail("C09", "tojson-error", "after %s: ToJSON error %v", o.cur, err)
		return
	}
	ks, ok := objectKeyOrder(b)
	if !ok {
		// not a readable JSON object: validity of the document is C11's concern, not C09's
		o.Unjudged("C09 ToJSON order: document not parseable")
		return
	}
	wantK := mapS(s.ents, func(e kvEnt[K]) string { return fmt.Sprint(e.k) })
	if !slices.Equal(ks, wantK) {
		o.Fail("C09", "tojson-order", "after %s: ToJSON member order %q (document %s), insertion order %q", o.cur, ks, b, wantK)
	}
}

// ---- C07 structure -------------------------------------------------------------------------------------

func (s *kvSubj[K]) checkShape(o *Oracle) {
	switch t := s.m.(type) {
	case *redblacktree.Tree[K, string]:
		n := 0
		var walk func(nd, parent *redblacktree.Node[K, string]) (lo, hi int)
		walk = func(nd, parent *redblacktree.Node[K, string]) (int, int) {
			if nd == nil {
				return 0, 0
			}
			n++
			if n > 1<<22 {
				return 0, 0
			}
			if nd.Parent != parent {
				o.Fail("C07", "rbt-parent-link", "after %s: node %s: Parent link does not mirror the child link", o.cur, s.d.Str(nd.Key))
			}
			l1, h1 := walk(nd.Left, nd)
			l2, h2 := walk(nd.Right, nd)
			return min(l1, l2) + 1, max(h1, h2) + 1
		}
		lo, hi := walk(t.Root, nil)
		if hi > 2*lo {
			o.Fail("C07", "rbt-path-ratio", "after %s: longest root-to-leaf path %d is more than twice the shortest %d (size %d)", o.cur, hi, lo, t.Size())
		}
		if n != t.Size() {
			o.Fail("C07", "rbt-node-count", "after %s: %d reachable nodes, Size()=%d", o.cur, n, t.Size())
		}
	case *avltree.Tree[K, string]:
		n := 0
		var walk func(nd, parent *avltree.Node[K, string]) int
		walk = func(nd, parent *avltree.Node[K, string]) int {
			if nd == nil {
				return 0
			}
			n++
			if n > 1<<22 {
				return 0
			}
			if nd.Parent != parent {
				o.Fail("C07", "avl-parent-link", "after %s: node %s: Parent link does not mirror the child link", o.cur, s.d.Str(nd.Key))
			}
			h0 := walk(nd.Children[0], nd)
			h1 := walk(nd.Children[1], nd)
			if h0-h1 > 1 || h1-h0 > 1 {
				o.Fail("C07", "avl-balance", "after %s: node %s has subtree heights %d and %d", o.cur, s.d.Str(nd.Key), h0, h1)
			}
			return max(h0, h1) + 1
		}
		walk(t.Root, nil)
		if n != t.Size() {
			o.Fail("C07", "avl-node-count", "after %s: %d reachable nodes, Size()=%d", o.cur, n, t.Size())
		}
	case *btree.Tree[K, string]:
		m := s.cfg.Order
		minKeys := (m+1)/2 - 1
		leafDepth := -1
		keysSeen := 0
		var walk func(nd, parent *btree.Node[K, string], depth int)
		walk = func(nd, parent *btree.Node[K, string], depth int) {
			if nd == nil {
				o.Fail("C07", "btree-nil-child", "after %s: nil child at depth %d", o.cur, depth)
				return
			}
			keysSeen += len(nd.Entries)
			if keysSeen > 1<<22 {
				return
			}
			if nd.Parent != parent {
				o.Fail("C07", "btree-parent-link", "after %s: node at depth %d: Parent link does not mirror the child link", o.cur, depth)
			}
			if len(nd.Children) > m {
				o.Fail("C07", "btree-max-children", "after %s: node with %d children, order %d", o.cur, len(nd.Children), m)
			}
			if len(nd.Entries) > m-1 {
				o.Fail("C07", "btree-max-keys", "after %s: node with %d keys, order %d", o.cur, len(nd.Entries), m)
			}
			if parent != nil && len(nd.Entries) < minKeys {
				o.Fail("C07", "btree-min-keys", "after %s: non-root node with %d keys, minimum %d (order %d)", o.cur, len(nd.Entries), minKeys, m)
			}
			if parent == nil && len(nd.Entries) == 0 {
				o.Fail("C07", "btree-empty-root", "after %s: root node without keys", o.cur)
			}
			if len(nd.Children) == 0 {
				if leafDepth == -1 {
					leafDepth = depth
				} else if leafDepth != depth {
					o.Fail("C07", "btree-leaf-depth", "after %s: leaves at depths %d and %d", o.cur, leafDepth, depth)
				}
				return
			}
			if len(nd.Children) != len(nd.Entries)+1 {
				o.Fail("C07", "btree-children-keys", "after %s: node with %d children has %d keys", o.cur, len(nd.Children), len(nd.Entries))
			}
			for _, c := range nd.Children {
				walk(c, nd, depth+1)
			}
		}
		levels := 0
		if t.Root != nil {
			walk(t.Root, nil, 1)
			levels = leafDepth
		}
		if keysSeen != t.Size() {
			o.Fail("C07", "btree-key-count", "after %s: %d keys reachable, Size()=%d", o.cur, keysSeen, t.Size())
		}
		if h := t.Height(); h != levels && !o.Failed() {
			o.Fail("C07", "btree-height", "after %s: Height()=%d, tree has %d levels", o.cur, h, levels)
		}
	}
}

// ---- observation -------------------------------------------------------------------------------------------

func (s *kvSubj[K]) Obs() string {
	keys, vals := s.m.Keys(), s.m.Values()
	var sb strings.Builder
	fmt.Fprintf(&sb, "size=%d empty=%v ", s.m.Size(), s.m.Empty())
	ks := mapS(keys, s.kclass)
	vs := mapS(vals, strconv.Quote)
	if kvDiscipline(s.cfg.Kind) == "hash" {
		sort.Strings(ks)
		sort.Strings(vs)
	}
	if s.cfg.Kind == "treebidimap" {
		vs = mapS(vals, func(v string) string { return s.vclass(v) })
	}
	sb.WriteString("keys=" + bracket(ks) + " values=" + bracket(vs) + " get=")
	for _, k := range s.d.Tab {
		if v, ok := s.m.Get(k); ok {
			sb.WriteString(s.d.Str(k) + ">" + strconv.Quote(v) + " ")
		}
	}
	if bm, ok := s.m.(maps.BidiMap[K, string]); ok {
		sb.WriteString("getkey=")
		for _, v := range s.vd.Tab {
			if k, ok := bm.GetKey(v); ok {
				sb.WriteString(strconv.Quote(v) + ">" + s.kclass(k) + " ")
			}
		}
	}
	return sb.String()
}

func (s *kvSubj[K]) ObsJSON() string { return s.Obs() + " json=" + jsonText(s.IO()) }

func (s *kvSubj[K]) ModelObs() string {
	ms := s.modelSorted()
	var sb strings.Builder
	fmt.Fprintf(&sb, "size=%d empty=%v ", len(ms), len(ms) == 0)
	ks := mapS(ms, func(e kvEnt[K]) string { return s.kclass(e.k) })
	vs := mapS(ms, func(e kvEnt[K]) string { return strconv.Quote(e.v) })
	if kvDiscipline(s.cfg.Kind) == "hash" {
		sort.Strings(ks)
		sort.Strings(vs)
	}
	if s.cfg.Kind == "treebidimap" {
		byV := slices.Clone(ms)
		sort.SliceStable(byV, func(i, j int) bool { return s.vd.Cmp(byV[i].v, byV[j].v) < 0 })
		vs = mapS(byV, func(e kvEnt[K]) string { return s.vclass(e.v) })
	}
	sb.WriteString("keys=" + bracket(ks) + " values=" + bracket(vs) + " get=")
	for _, k := range s.d.Tab {
		if i := s.findKey(k); i >= 0 {
			sb.WriteString(s.d.Str(k) + ">" + strconv.Quote(s.ents[i].v) + " ")
		}
	}
	if kvIsBidi(s.cfg.Kind) {
		sb.WriteString("getkey=")
		for _, v := range s.vd.Tab {
			if i := s.findVal(v); i >= 0 {
				sb.WriteString(strconv.Quote(v) + ">" + s.kclass(s.ents[i].k) + " ")
			}
		}
	}
	return sb.String()
}

// CheckNow runs the state comparison regardless of the sparse setting.
func (s *kvSubj[K]) CheckNow(o *Oracle) {
	sp := o.Sparse
	o.Sparse = false
	s.check(o)
	o.Sparse = sp
}

// checkNodeNav: node-level navigation must agree with the sorted enumeration (C02): the AVL tree's
// Node.Next/Prev chains from Left()/Right(), GetNode for present and absent keys, and the red-black
// tree's IteratorAt(node) as a cursor standing on that key.
func (s *kvSubj[K]) checkNodeNav(o *Oracle, keys []K, vals []string) {
	pos := -1
	if len(keys) > 0 {
		pos = derive(o.cur.ID, 77, len(keys))
	}
	switch t := s.m.(type) {
	case *avltree.Tree[K, string]:
		i := 0
		for n := t.Left(); n != nil && i <= len(keys); n = n.Next() {
			if i >= len(keys) || s.d.Str(n.Key) != s.d.Str(keys[i]) {
				o.Fail("C02", "avl-node-next-chain", "after %s: following Node.Next() from Left(), element %d is %s; Keys()=%s", o.cur, i, s.d.Str(n.Key), joinS(keys, s.d.Str))
				return
			}
			i++
		}
		if i != len(keys) {
			o.Fail("C02", "avl-node-next-chain", "after %s: the Node.Next() chain from Left() has %d elements, Keys() has %d", o.cur, i, len(keys))
			return
		}
		i = len(keys) - 1
		for n := t.Right(); n != nil && i >= -1; n = n.Prev() {
			if i < 0 || s.d.Str(n.Key) != s.d.Str(keys[i]) {
				o.Fail("C02", "avl-node-prev-chain", "after %s: following Node.Prev() from Right(), reached %s at reverse position %d; Keys()=%s", o.cur, s.d.Str(n.Key), i, joinS(keys, s.d.Str))
				return
			}
			i--
		}
		if i != -1 {
			o.Fail("C02", "avl-node-prev-chain", "after %s: the Node.Prev() chain from Right() stops %d elements early", o.cur, i+1)
			return
		}
		if pos >= 0 {
			if n := t.GetNode(keys[pos]); n == nil || s.kclass(n.Key) != s.kclass(keys[pos]) || n.Value != vals[pos] {
				o.Fail("C02", "getnode", "after %s: GetNode(%s) does not return the node of that key", o.cur, s.d.Str(keys[pos]))
			}
		}
	case *redblacktree.Tree[K, string]:
		if pos < 0 {
			return
		}
		n := t.GetNode(keys[pos])
		if n == nil || s.kclass(n.Key) != s.kclass(keys[pos]) || n.Value != vals[pos] {
			o.Fail("C02", "getnode", "after %s: GetNode(%s) does not return the node of that key", o.cur, s.d.Str(keys[pos]))
			return
		}
		it := t.IteratorAt(n)
		if s.d.Str(it.Key()) != s.d.Str(keys[pos]) || it.Value() != vals[pos] {
			o.Fail("C02", "iteratorat", "after %s: IteratorAt(node of %s) stands on %s", o.cur, s.d.Str(keys[pos]), s.d.Str(it.Key()))
			return
		}
		for i := pos + 1; i <= len(keys); i++ {
			ok := it.Next()
			if ok != (i < len(keys)) || (ok && s.d.Str(it.Key()) != s.d.Str(keys[i])) {
				o.Fail("C02", "iteratorat-next", "after %s: IteratorAt(%s) then Next x%d: got ok=%v, Keys()=%s", o.cur, s.d.Str(keys[pos]), i-pos, ok, joinS(keys, s.d.Str))
				return
			}
		}
		it = t.IteratorAt(n)
		for i := pos - 1; i >= -1; i-- {
			ok := it.Prev()
			if ok != (i >= 0) || (ok && s.d.Str(it.Key()) != s.d.Str(keys[i])) {
				o.Fail("C02", "iteratorat-prev", "after %s: IteratorAt(%s) then Prev x%d: got ok=%v, Keys()=%s", o.cur, s.d.Str(keys[pos]), pos-i, ok, joinS(keys, s.d.Str))
				return
			}
		}
	case *btree.Tree[K, string]:
		if pos < 0 {
			return
		}
		n := t.GetNode(keys[pos])
		found := false
		if n != nil {
			for _, e := range n.Entries {
				if s.d.Str(e.Key) == s.d.Str(keys[pos]) && e.Value == vals[pos] {
					found = true
				}
			}
		}
		if !found {
			o.Fail("C02", "getnode", "after %s: GetNode(%s) does not return a node holding that key", o.cur, s.d.Str(keys[pos]))
		}
	}
}
