package main

import (
	"encoding/json"
	"fmt"
	"slices"
	"strings"
)

// C11 and C12: the persistence boundary (seam S2). A container's bytes leave through ToJSON, sit
// in a simulated snapshot store, and come back through FromJSON - after a restart into a fresh
// container (C11, no damage: the durability round trip) or onto a live container with prior
// content and possibly damaged by a store fault (C12).

type jsonWorld struct {
	prop string // C11 or C12
}

// followTags: "the container then continues to satisfy all its other guarantees".
var followTags = []string{"C01", "C02", "C03", "C04", "C05", "C06", "C07", "C09", "C10", "C15"} // (C07: the shape walk; comparator calls are counted in the C07 world only)

func loadVariant(s Subject, variant int, b []byte) error {
	switch variant % 3 {
	case 0:
		return s.IO().FromJSON(b)
	case 1:
		return s.IO().UnmarshalJSON(b)
	}
	return json.Unmarshal(b, s.Real())
}

func (w *jsonWorld) Gen(seed uint64, tier string) *Plan {
	r := NewRng(seed)
	if w.prop == "C11" && r.P(1, 6) {
		return genVals(r, tier) // the value-types sub-world
	}
	if w.prop == "C12" && r.P(1, 50) {
		// key types that read their text form their own way (encoding.TextUnmarshaler): a probe of its own
		return &Plan{World: "json-textkeys", Cfg: Cfg{Kind: "linkedhashmap", Elem: "string", Mode: "text-keys"}, Ops: []Op{{ID: 0, N: "TextKeys", A: []int{r.Intn(1 << 20)}}},
			Faults: []Fault{{Kind: "F17-foreign-writer", At: 0}}}
	}
	cfg := genCfg(r, allKinds, tier)
	if cfg.Dom > 32 {
		cfg.Dom = []int{4, 8, 12, 16, 24, 32}[r.Intn(6)]
	}
	if w.prop == "C12" && usesCmp(cfg.Kind) && r.P(2, 3) {
		cfg.Cmp = r.PickS("nat", "rev", "natbig", "diff", "ext") // mostly identity classes; coarsened comparators keep their share
		if cfg.Kind == "treebidimap" {
			cfg.VCmp = r.PickS("nat", "rev", "natbig", "diff", "ext")
		}
		if cfg.Cmp != "nat" || (cfg.VCmp != "" && cfg.VCmp != "nat") {
			cfg.Ctor = "" // the default-comparator constructor only goes with the natural order
		}
	}
	if r.P(1, 4) {
		cfg.Skip = []int{2, 3, 5}[r.Intn(3)] // unobserved stretches between the store's operations (see histWorld)
	}
	p := &Plan{World: "json", Cfg: cfg}
	s := makeSubject(cfg, false)
	roles := s.(Roler).Roles()
	nClients := r.Range(1, 3)
	clients := make([]*Client, nClients)
	for i := range clients {
		clients[i] = &Client{Role: roles[r.Intn(len(roles))], Cursor: r.Intn(100)}
		p.Clients = append(p.Clients, clients[i].Role)
	}
	p.Clients = append(p.Clients, "snapshot-store")
	n := []int{6, 12, 25, 50, 100}[r.Intn(5)]
	sweep := w.prop == "C12" && tier == "thorough" && r.P(1, 3)
	if sweep {
		p.Cfg.Mode = "truncation-sweep"
		n = []int{4, 8, 16}[r.Intn(3)]
	}
	var stale [][]byte
	id := 0
	if !sweep && r.P(1, 40) {
		// a large container: array capacities beyond 1024, trees several levels deep
		p.Cfg.Dom = []int{32, 256, 1024}[r.Intn(3)]
		s = makeSubject(p.Cfg, false)
		hi := 2200
		if w.prop == "C12" && r.P(1, 3) {
			hi = 16000 // documents beyond 64 KiB
		}
		op := genFill(r, id, 1030, hi)
		s.ModelApply(op)
		p.Ops = append(p.Ops, op)
		p.Cfg.Mode = "big"
		id++
		n = min(n, 25)
	}
	warm := func(ci int) {
		// read-only calls are part of the history: what they leave behind - a memo, a flattened view, a position
		// hint - must not outlive the next load or restart. One in three is an enumerable function, judged by
		// C14's rule (the loaded container "continues to satisfy all its other guarantees")
		if _, ok := s.(EnumSubject); ok && slices.Contains(enumKinds, cfg.Kind) && r.P(1, 3) {
			p.Ops = append(p.Ops, Op{ID: id, N: "E:" + enumNames[r.Intn(4)], C: ci, A: []int{r.Intn(nPreds * nMaps), r.Intn(cfg.Dom), r.Weighted(3, 1)}})
		} else {
			rop := s.GenRead(r, id)
			rop.N, rop.C = "R:"+rop.N, ci
			p.Ops = append(p.Ops, rop)
		}
		id++
	}
	// script: "" an arbitrary load; "reject": a well-formed document of some other container's content with one wrongly
	// typed element or member after the first (a decoder stops there, having seen the good ones); "nulls": such a
	// document, intact but for some null elements (which denote zero values, whatever the decoder's target held)
	var genLoadAs func(script string)
	genLoad := func() { genLoadAs("") }
	genLoadAs = func(script string) {
		var base []byte
		var kinds []string
		if !sweep && p.Cfg.Mode != "big" && r.P(1, 3) && script == "" {
			warm(nClients) // ... right before the load
		}
		src := r.Weighted(8, 3, 6, 3)
		if script != "" {
			src = 2
		}
		switch src {
		case 0:
			base = s.EncodeModel()
		case 1:
			if len(stale) > 0 {
				base = stale[r.Intn(len(stale))]
				kinds = append(kinds, "F9-stale-snapshot")
			} else {
				base = s.EncodeModel()
			}
		case 2: // the content of some other container of the same kind
			t := s.Fresh()
			if c := p.Cfg; (c.Cmp == "div9" || c.Cmp == "mod5" || c.Cmp == "len" || c.Cmp == "fold" || c.VCmp == "len" || c.VCmp == "fold") && c.Ctor == "" && r.Bool() {
				// ... written by a container that tells apart what this one's comparator identifies: several
				// distinct keys (members, values) of the document are one key here
				c.Cmp = "nat"
				if c.VCmp != "" {
					c.VCmp = "nat"
				}
				t = makeSubject(c, false)
				kinds = append(kinds, "F17-foreign-writer")
			}
			tc := &Client{Role: roles[r.Intn(len(roles))]}
			nt := r.Intn(12)
			if script != "" {
				nt = r.Range(4, 14)
			}
			for i := nt; i > 0; i-- {
				t.ModelApply(t.GenOp(r, 100000+i, tc))
			}
			base = t.EncodeModel()
		default:
			base = []byte(wrongKindDocs[r.Intn(len(wrongKindDocs))])
			kinds = append(kinds, "F10-wrong-document-kind")
		}
		nFaults := r.Weighted(2, 6, 2)
		switch script {
		case "reject":
			base = applyLateTypeFault(r, base)
			kinds = append(kinds, "F11-wrong-type-element")
			nFaults = 0
		case "nulls":
			k := "F18-null-elements"
			if cfg.Elem == "item" && r.Bool() {
				k = "F14-partial-struct"
			}
			base = applyDocFault(r, k, base, cfg.Elem, cfg.Cap)
			kinds = append(kinds, k)
			nFaults = 0
		}
		for nf := nFaults; nf > 0; nf-- {
			if r.P(3, 5) {
				k := byteFaults[r.Intn(len(byteFaults))]
				base = applyByteFault(r, k, base)
				kinds = append(kinds, k)
			} else {
				k := docFaults[r.Intn(len(docFaults))]
				base = applyDocFault(r, k, base, cfg.Elem, cfg.Cap)
				kinds = append(kinds, k)
			}
		}
		op := Op{ID: id, N: "Load", C: nClients, A: []int{r.Intn(3)}, B: base, T: string(base)}
		for _, k := range kinds {
			p.Faults = append(p.Faults, Fault{Kind: k, At: id})
		}
		if len(kinds) == 0 {
			p.Faults = append(p.Faults, Fault{Kind: "none (intact snapshot)", At: id})
		}
		s.LoadModel(base) // the model follows what the reference decoder says the bytes denote (if anything)
		p.Ops = append(p.Ops, op)
		id++
	}
	for i := 0; i < n; i++ {
		ci := r.Intn(nClients)
		op := s.GenOp(r, id, clients[ci])
		op.C = ci
		s.ModelApply(op)
		p.Ops = append(p.Ops, op)
		id++
		if r.P(1, 6) {
			stale = append(stale, s.EncodeModel())
		}
		if !sweep && p.Cfg.Mode != "big" && r.P(1, 7) {
			// (not in the large-container runs: the linked kinds' iterators read by index, a walk is quadratic)
			warm(ci)
		}
		if w.prop == "C11" {
			switch r.Weighted(20, 3, 3) {
			case 1:
				p.Ops = append(p.Ops, Op{ID: id, N: "Checkpoint", C: nClients})
				id++
			case 2:
				p.Ops = append(p.Ops, Op{ID: id, N: "Restart", C: nClients, A: []int{r.Intn(3)}})
				id++
			}
		} else if !sweep && r.P(1, 5) {
			if r.P(1, 8) {
				// a load onto a container that was just emptied (it keeps whatever Clear keeps: capacity, nodes)
				cop := Op{ID: id, N: "Clear", C: ci}
				s.ModelApply(cop)
				p.Ops = append(p.Ops, cop)
				id++
			}
			if r.P(1, 8) {
				// a rejected document followed at once by an accepted one with nulls: whatever the rejected one's good
				// elements left behind (in spare capacity, in a table, in recycled nodes) must not show through
				genLoadAs("reject")
				genLoadAs("nulls")
			} else {
				genLoad()
				if r.P(1, 4) {
					genLoad() // two loads in a row: what the first one leaves behind meets the second
				}
			}
		}
	}
	if w.prop == "C11" {
		p.Ops = append(p.Ops, Op{ID: id, N: "Restart", C: nClients, A: []int{r.Intn(3)}})
	}
	if sweep {
		// every truncation offset of one snapshot (F1 enumerated), each onto the live container
		// (the snapshot is kept below 1500 bytes: the enumeration is quadratic in its length, and a single long
		// variadic call over long strings would otherwise make one plan of tens of thousands of loads)
		var doc []byte
		for attempt := 0; attempt < 8; attempt++ {
			t := s.Fresh()
			tc := &Client{Role: roles[r.Intn(len(roles))]}
			nt := r.Range(1, 10)
			if attempt > 2 {
				nt = 1
			}
			for i := nt; i > 0; i-- {
				t.ModelApply(t.GenOp(r, 100000+i, tc))
			}
			doc = t.EncodeModel()
			if len(doc) <= 1500 {
				break
			}
		}
		if len(doc) > 1500 {
			doc = s.Fresh().EncodeModel()
		}
		if r.P(1, 3) {
			doc = reencode(r, doc)
		}
		// one of three enumerations over the snapshot: every truncation offset (F1), every bit of every
		// byte flipped (F2), or every byte overwritten by one structural character (F3)
		var variants [][]byte
		var kind string
		switch r.Intn(3) {
		case 0:
			kind = "F1-torn-write"
			for o := 0; o <= len(doc); o++ {
				variants = append(variants, append([]byte(nil), doc[:o]...))
			}
		case 1:
			kind = "F2-bit-flip"
			if len(doc) > 48 {
				doc = doc[:48]
			}
			for o := 0; o < len(doc); o++ {
				for bit := 0; bit < 8; bit++ {
					b := append([]byte(nil), doc...)
					b[o] ^= 1 << uint(bit)
					variants = append(variants, b)
				}
			}
		default:
			kind = "F3-structural-byte"
			ch := structuralBytes[r.Intn(len(structuralBytes))]
			for o := 0; o < len(doc); o++ {
				b := append([]byte(nil), doc...)
				b[o] = ch
				variants = append(variants, b)
			}
		}
		p.Cfg.Mode = "sweep:" + kind
		for o, b := range variants {
			p.Ops = append(p.Ops, Op{ID: id, N: "Load", C: nClients, A: []int{r.Intn(3)}, B: b, T: string(b)})
			p.Faults = append(p.Faults, Fault{Kind: kind, At: id, A: []int{o}})
			s.LoadModel(b)
			id++
			if r.P(1, 8) {
				op := s.GenOp(r, id, clients[0])
				s.ModelApply(op)
				p.Ops = append(p.Ops, op)
				id++
			}
		}
	}
	return p
}

func isHashKind(kind string) bool {
	return kind == "hashset" || kind == "hashmap" || kind == "hashbidimap"
}

// checkpoint evaluates C11's document oracle and returns the bytes.
func checkpoint(s Subject, o *Oracle) ([]byte, bool) {
	b, err := s.IO().ToJSON()
	if err != nil {
		o.Fail("C11", "tojson-error", "ToJSON failed: %v", err)
		return nil, false
	}
	if !json.Valid(b) {
		o.Fail("C11", "tojson-invalid", "ToJSON returned invalid JSON: %s", b)
		return nil, false
	}
	want := "array"
	if s.Family() == "kv" {
		want = "object"
	}
	if k := topKind(b); k != want {
		o.Fail("C11", "tojson-kind", "ToJSON returned a JSON %s (%s), want an %s", k, b, want)
		return nil, false
	}
	mb, err := json.Marshal(s.Real())
	if err != nil {
		o.Fail("C11", "marshal-error", "json.Marshal(container) failed: %v (ToJSON gave %s)", err, b)
		return nil, false
	}
	if !sameDocument(b, mb, isHashKind(s.Kind())) {
		o.Fail("C11", "marshal-differs", "ToJSON %s differs from json.Marshal(container) %s", b, mb)
		return nil, false
	}
	if !isHashKind(s.Kind()) && string(b) != string(mb) {
		// "identical": for the ordered kinds byte for byte (json.Marshal compacts and HTML-escapes what MarshalJSON returns)
		o.Fail("C11", "marshal-differs-bytes", "ToJSON %s and json.Marshal(container) %s denote the same document but are not identical", b, mb)
		return nil, false
	}
	return b, true
}

func (w *jsonWorld) Exec(p *Plan, st *RunStats) *Violation {
	if p.World == "json-vals" {
		return execVals(p, st)
	}
	if p.World == "json-textkeys" {
		attach(p)
		start := stepCount
		o := NewOracle("C12", "C12")
		if len(p.Ops) == 1 && len(p.Ops[0].A) == 1 {
			safely(o, p.Ops[0], func() { o.cur = p.Ops[0]; textKeyProbe(o, p.Ops[0].A[0]) })
			st.Ops, st.NonTrivial = 1, true
			st.Fault("F17-foreign-writer")
		}
		st.Steps, st.Unjudged = stepCount-start, o.Unj
		return o.V
	}
	attach(p)
	start := stepCount
	s := makeSubject(p.Cfg, false)
	var o *Oracle
	if w.prop == "C11" {
		o = NewOracle("C11", "C11")
	} else {
		o = NewOracle("C12", append([]string{"C12"}, followTags...)...)
	}
	o.Kind = p.Cfg.Kind
	faultsAt := map[int][]string{}
	for _, f := range p.Faults {
		faultsAt[f.At] = append(faultsAt[f.At], f.Kind)
	}
	removals, restartsAfterRemoval, firedNonEmpty := 0, 0, 0
	// C11: documents handed out by ToJSON are kept (the slices themselves, not copies) next to a copy of
	// what they said; later operations and later ToJSON calls must not change a document already returned
	type heldDoc struct {
		doc, copy []byte
		at        int
	}
	var held []heldDoc
	checkHeld := func() {
		for _, h := range held {
			if string(h.doc) != string(h.copy) {
				o.Fail("C11", "returned-document-changed", "the document returned by ToJSON at op %d was %s and has since become %s", h.at, h.copy, h.doc)
				return
			}
		}
	}
	for _, op := range p.Ops {
		op := op
		st.Ops++
		before := s.ModelSize()
		switch op.N {
		case "Checkpoint":
			safely(o, op, func() {
				o.cur = op
				if b, ok := checkpoint(s, o); ok {
					held = append(held, heldDoc{b, append([]byte(nil), b...), op.ID})
					if len(held) > 6 {
						held = held[1:]
					}
				}
				checkHeld()
			})
		case "Restart":
			safely(o, op, func() {
				o.cur = op
				b, ok := checkpoint(s, o)
				if !ok {
					return
				}
				held = append(held, heldDoc{b, append([]byte(nil), b...), op.ID})
				if len(held) > 6 {
					held = held[1:]
				}
				checkHeld()
				if o.Failed() {
					return
				}
				st.Fault("crash-restart")
				reload := func() Subject {
					f := s.Fresh()
					if err := loadVariant(f, op.A[0], b); err != nil {
						o.Fail("C11", "restart-load-error", "loading the container's own ToJSON output %s into a fresh container failed: %v", b, err)
						return nil
					}
					f.AdoptModel(s)
					return f
				}
				f := reload()
				if f == nil {
					return
				}
				if g, m := f.Obs(), f.ModelObs(); g != m {
					o.Fail("C11", "restart-content", "after reloading %s into a fresh container: observers %s, want %s", b, g, m)
					return
				}
				if g, l := f.Obs(), s.Obs(); g != l {
					o.Fail("C11", "restart-differs-from-live", "reloaded container %s differs from the live one %s (document %s)", g, l, b)
					return
				}
				// "same iteration order for ordered containers": the reloaded container's own iterators, both ways
				if bad := walkBothWays(f); bad != "" {
					o.Fail("C11", "restart-iteration", "after reloading %s into a fresh container: %s", b, bad)
					return
				}
				if es, ok := f.(EnumSubject); ok && slices.Contains(enumKinds, p.Cfg.Kind) && p.Cfg.Mode != "big" {
					o.Active["C14"] = true
					es.Enumerate(Op{ID: op.ID, N: "Each", A: []int{0, 0, 0}}, o)
					delete(o.Active, "C14")
					if o.Failed() {
						return
					}
				}
				// same subsequent Pop/Dequeue sequence: drain the old live container and a second reload
				if f2 := reload(); f2 != nil {
					if d1, d2 := s.Drain(), f2.Drain(); d1 != d2 {
						o.Fail("C11", "restart-drain", "the live container drains as %s, the reloaded one as %s (document %s)", d1, d2, b)
						return
					}
				}
				s = f // the run continues on the restarted container
				if removals > 0 {
					restartsAfterRemoval++
				}
			})
		case "Load":
			safely(o, op, func() {
				o.cur = op
				pre := s.ObsJSON()
				nonEmpty := s.ModelSize() > 0
				err := loadVariant(s, op.A[0], op.B)
				for _, k := range faultsAt[op.ID] {
					st.Fault(k)
				}
				if nonEmpty && len(faultsAt[op.ID]) > 0 {
					firedNonEmpty++
				}
				if err != nil {
					st.Probe("load-rejected")
					if post := s.ObsJSON(); post != pre {
						o.Fail("C12", "error-not-atomic", "FromJSON(%q) returned %v but the container changed:\n before %s\n after  %s", op.B, err, pre, post)
					}
					return
				}
				st.Probe("load-accepted")
				if !json.Valid(op.B) {
					o.Fail("C12", "accepted-invalid-json", "FromJSON(%q) succeeded on input that is not valid JSON", op.B)
					return
				}
				if !s.LoadModel(op.B) {
					// the reference decoder rejects (element type) what the container accepted: the
					// statement does not fix whether an input must fail, and nothing is denoted to
					// compare with: unjudged; the run cannot continue without a model
					o.Unjudged("C12 load accepted where the reference decoder rejects on element type")
					o.V = &Violation{Property: "", Oracle: "unjudged-stop"}
					return
				}
				s.CheckLoaded(o, "C12")
				if bad := walkBothWays(s); bad != "" && !o.Failed() {
					// "continues to satisfy all its other guarantees": the loaded container iterates like any other
					o.Fail("C12", "loaded-iteration", "after %s: %s", op, bad)
				}
				if es, ok := s.(EnumSubject); ok && slices.Contains(enumKinds, p.Cfg.Kind) && p.Cfg.Mode != "big" && !o.Failed() {
					// ... and enumerates like any other (Each, then one of Any/All/Find with a derived predicate)
					o.Active["C14"] = true
					es.Enumerate(Op{ID: op.ID, N: "Each", A: []int{0, 0, 0}}, o)
					es.Enumerate(Op{ID: op.ID, N: enumNames[1+derive(op.ID, 41, 3)], A: []int{derive(op.ID, 42, nPreds*nMaps), derive(op.ID, 43, p.Cfg.Dom), 0}}, o)
					delete(o.Active, "C14")
				}
			})
			if o.V != nil && o.V.Oracle == "unjudged-stop" {
				o.V = nil
				st.Steps = stepCount - start
				st.Unjudged = o.Unj
				return nil
			}
		default:
			if rest, ok := strings.CutPrefix(op.N, "R:"); ok {
				rop := op
				rop.N = rest
				safely(o, op, func() { o.cur = op; s.DoRead(rop) })
				break
			}
			if rest, ok := strings.CutPrefix(op.N, "E:"); ok {
				eop := op
				eop.N = rest
				was := o.Active["C14"]
				o.Active["C14"] = true
				safely(o, op, func() { o.cur = op; s.(EnumSubject).Enumerate(eop, o) })
				o.Active["C14"] = was
				break
			}
			o.Sparse = p.Cfg.Skip > 1 && derive(op.ID, 77, p.Cfg.Skip) != 0
			safely(o, op, func() { s.Step(op, o) })
			o.Sparse = false
			if s.ModelSize() < before {
				removals++
			}
		}
		if traceOn {
			trace("op %d %s -> %016x", op.ID, op.N, hashStr(s.Obs()))
		}
		if o.Failed() {
			break
		}
	}
	if !o.Failed() && w.prop == "C12" {
		if h, ok := s.(interface{ FinalDrain(*Oracle) }); ok {
			safely(o, Op{ID: -1, N: "Drain"}, func() { h.FinalDrain(o) })
		}
	}
	st.Steps = stepCount - start
	st.Unjudged = o.Unj
	if w.prop == "C11" {
		st.NonTrivial = restartsAfterRemoval >= 1
	} else {
		st.NonTrivial = firedNonEmpty >= 1
	}
	_ = fmt.Sprint
	return o.V
}
