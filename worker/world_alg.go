package main

import (
	"slices"
	"sort"

	"github.com/emirpasic/gods/v2/containers"
)

// C13: set algebra is exact and free of side effects. Two sets a and b of the same kind (and, for
// TreeSet, the same comparator) are built by seeded histories - disjoint, overlapping, nested,
// equal, the same object, empty, either larger. Each algebra op is followed by an independence
// probe: result, a and b are mutated in turn and the other two must not move.

type AlgSubject interface {
	Algebra(other Subject, op Op, o *Oracle) (bothNonEmpty bool)
}

func (s *setSubj[T]) classSet() map[string]bool {
	m := map[string]bool{}
	for _, x := range s.m {
		m[s.class(x)] = true
	}
	return m
}

func (s *setSubj[T]) Algebra(otherS Subject, op Op, o *Oracle) bool {
	other := otherS.(*setSubj[T])
	o.cur = op
	o.Kind = s.cfg.Kind
	recv, arg := s, other
	switch op.X {
	case 1:
		recv, arg = other, s
	case 2:
		recv, arg = s, s
	case 3:
		recv, arg = other, other
	}
	ca, cb := recv.classSet(), arg.classSet()
	want := []string{}
	switch op.N {
	case "Intersection":
		for c := range ca {
			if cb[c] {
				want = append(want, c)
			}
		}
	case "Union":
		for c := range ca {
			want = append(want, c)
		}
		for c := range cb {
			if !ca[c] {
				want = append(want, c)
			}
		}
	case "Difference":
		for c := range ca {
			if !cb[c] {
				want = append(want, c)
			}
		}
	}
	sort.Strings(want)
	obsA, obsB := s.ObsJSON(), other.ObsJSON()
	res := setAlgebra[T](recv.s, arg.s, op.N)
	// the same call once more: two results of one call are two sets (this one is left alone until the end)
	res2 := setAlgebra[T](recv.s, arg.s, op.N)
	// how the sets are mutated in the independence phases below: 0, 4 plain Add/Remove; 1 Clear first; 2 a load that
	// fails first; 3 a load that succeeds first
	mut := derive(op.ID, 50, 5)
	got := sortedStrings(mapS(res.Values(), s.class))
	if !slices.Equal(got, want) {
		o.Fail("C13", "members", "%s of %s and %s: result %v, want %v", op.N, recv.canon(recv.m), arg.canon(arg.m), got, want)
		return false
	}
	if res.Size() != len(want) {
		o.Fail("C13", "result-size", "%s: result Size()=%d with %d members", op.N, res.Size(), len(want))
	}
	ascending := func(when string) {
		if s.cfg.Kind != "treeset" {
			return
		}
		v := res.Values()
		for i := 1; i < len(v); i++ {
			if s.d.Cmp(v[i-1], v[i]) >= 0 {
				o.Fail("C13", "treeset-result-order", "%s: TreeSet result %s is not ascending under the operands' comparator %s: %s", op.N, when, s.d.CmpName, joinS(v, s.d.Str))
				return
			}
		}
	}
	ascending("as returned")
	// the result is a set like one made by the constructor: it iterates in both directions and serialises
	// like a fresh set holding the same members
	if s.cfg.Kind != "hashset" {
		vals := res.Values()
		if it := setIter(res); it != nil {
			var fwd []T
			for it.Next() {
				fwd = append(fwd, it.Value())
			}
			if joinS(fwd, s.d.Str) != joinS(vals, s.d.Str) {
				o.Fail("C13", "result-iteration", "%s: the result iterates as %s, Values() %s", op.N, joinS(fwd, s.d.Str), joinS(vals, s.d.Str))
			}
			if rit, ok := it.(containers.ReverseIteratorWithIndex[T]); ok {
				var back []T
				for rit.End(); rit.Prev(); {
					back = append(back, rit.Value())
				}
				slices.Reverse(back)
				if joinS(back, s.d.Str) != joinS(vals, s.d.Str) {
					o.Fail("C13", "result-iteration", "%s: the result iterates backwards as (reversed) %s, Values() %s", op.N, joinS(back, s.d.Str), joinS(vals, s.d.Str))
				}
			}
		}
		if s.cfg.Elem != "float" {
			if g, w := jsonText(res.(jsonIO)), jsonText(recv.make(vals...).(jsonIO)); g != w {
				o.Fail("C13", "result-tojson", "%s: the result serialises as %s, a fresh set holding the same members as %s", op.N, g, w)
			}
		}
	}
	if a2, b2 := s.ObsJSON(), other.ObsJSON(); a2 != obsA || b2 != obsB {
		o.Fail("C13", "operand-changed", "%s changed an operand:\n a before %s\n a after  %s\n b before %s\n b after  %s", op.N, obsA, a2, obsB, b2)
		return false
	}
	// chaining: the result is a set of the same kind carrying the operands' comparator, so it combines with
	// the operands and with other results like any other set
	{
		cr := map[string]bool{}
		for _, c := range want {
			cr[c] = true
		}
		chain := []struct {
			name string
			got  []T
			want func(c string, inRes, inRecv bool) bool
		}{
			{"result.Intersection(receiver)", setAlgebra[T](res, recv.s, "Intersection").Values(), func(_ string, r, a bool) bool { return r && a }},
			{"receiver.Union(result)", setAlgebra[T](recv.s, res, "Union").Values(), func(_ string, r, a bool) bool { return r || a }},
			{"argument.Difference(result)", setAlgebra[T](arg.s, res, "Difference").Values(), nil},
		}
		for _, ch := range chain {
			var w []string
			all := map[string]bool{}
			for c := range ca {
				all[c] = true
			}
			for c := range cb {
				all[c] = true
			}
			for c := range all {
				keep := false
				if ch.want != nil {
					keep = ch.want(c, cr[c], ca[c])
				} else {
					keep = cb[c] && !cr[c]
				}
				if keep {
					w = append(w, c)
				}
			}
			sort.Strings(w)
			if w == nil {
				w = []string{}
			}
			g := sortedStrings(mapS(ch.got, s.class))
			if !slices.Equal(g, w) {
				o.Fail("C13", "chained-algebra", "%s(%s, %s) = %v; then %s gives %v, want %v", op.N, recv.canon(recv.m), arg.canon(arg.m), want, ch.name, g, w)
				return false
			}
		}
	}
	// independence 1: mutate the result
	x, y := s.d.At(derive(op.ID, 1, len(s.d.Tab))), s.d.At(derive(op.ID, 2, len(s.d.Tab)))
	switch mut {
	case 1:
		res.Clear()
	case 2:
		res.(jsonIO).FromJSON([]byte("[1,"))
		res.(jsonIO).FromJSON([]byte("{}"))
	case 3:
		res.(jsonIO).FromJSON([]byte("[]"))
	}
	res.Add(x, y)
	ascending("after Add")
	if !res.Contains(x, y) {
		o.Fail("C13", "result-usable", "%s: result does not contain elements added to it afterwards", op.N)
	}
	if v := res.Values(); len(v) > 0 {
		res.Remove(v[0])
	}
	res.Remove(s.d.At(derive(op.ID, 3, len(s.d.Tab))))
	if a2, b2 := s.ObsJSON(), other.ObsJSON(); a2 != obsA || b2 != obsB {
		o.Fail("C13", "result-shares-state", "mutating the result of %s changed an operand:\n a before %s\n a after  %s\n b before %s\n b after  %s", op.N, obsA, a2, obsB, b2)
		return false
	}
	// independence 2 and 3: mutate a, then b, through the ordinary stepped ops (the models follow)
	resObs := recv.canon(res.Values())
	for i, t := range []*setSubj[T]{s, other} {
		otherOne := other
		if i == 1 {
			otherOne = s
		}
		keep := otherOne.ObsJSON()
		switch mut {
		case 1:
			t.Step(Op{ID: op.ID, N: "Clear"}, o)
		case 2:
			t.IO().FromJSON([]byte("[1,"))
			t.IO().FromJSON([]byte("{}"))
		case 3:
			if s.cfg.Elem != "float" {
				t.IO().FromJSON(t.EncodeModel()) // (the same members: the model stands)
			}
		}
		t.Step(Op{ID: op.ID, N: "Add", A: []int{derive(op.ID, 4+i, len(s.d.Tab)), derive(op.ID, 6+i, len(s.d.Tab))}}, o)
		if len(t.m) > 0 {
			t.Step(Op{ID: op.ID, N: "Remove", A: []int{tabIndex(s.d, t.m[derive(op.ID, 8+i, len(t.m))])}}, o)
		}
		o.cur = op
		if r2 := recv.canon(res.Values()); r2 != resObs {
			o.Fail("C13", "result-shares-state", "mutating operand %d after %s changed the result: %s -> %s", i, op.N, resObs, r2)
			return false
		}
		if k2 := otherOne.ObsJSON(); k2 != keep && s != other {
			o.Fail("C13", "operands-share-state", "mutating one operand after %s changed the other: %s -> %s", op.N, keep, k2)
			return false
		}
	}
	// the second result of the same call was never touched: it still holds what the call returned, and it is a set of
	// its own (emptying it reaches neither operand nor the first result)
	o.cur = op
	if r2 := sortedStrings(mapS(res2.Values(), s.class)); !slices.Equal(r2, want) {
		o.Fail("C13", "result-shares-state", "%s was called twice; the first result and both operands were then mutated and the second, untouched result changed: %v, was %v", op.N, r2, want)
		return false
	}
	obsA, obsB = s.ObsJSON(), other.ObsJSON()
	resObs = recv.canon(res.Values())
	res2.Clear()
	res2.Add(x)
	if a2, b2 := s.ObsJSON(), other.ObsJSON(); a2 != obsA || b2 != obsB {
		o.Fail("C13", "result-shares-state", "%s was called twice; emptying the second result changed an operand:\n a before %s\n a after  %s\n b before %s\n b after  %s", op.N, obsA, a2, obsB, b2)
		return false
	}
	if r2 := recv.canon(res.Values()); r2 != resObs {
		o.Fail("C13", "result-shares-state", "%s was called twice; emptying the second result changed the first: %s -> %s", op.N, resObs, r2)
		return false
	}
	return len(ca) > 0 && len(cb) > 0
}

// ForeignAlgebra combines the subject with a TreeSet ordered by another comparator function, in either
// position. C13 is about operands of the same comparator, so the result is not judged; but the call is
// legal, it must leave the operand as it was, and the operand's later same-comparator algebra (judged by
// Algebra above) must be unaffected by having met a foreign set.
func (s *setSubj[T]) ForeignAlgebra(op Op, o *Oracle) {
	o.cur, o.Kind = op, s.cfg.Kind
	f := s.foreign(s.vals(op.A[2:]))
	if f == nil {
		return
	}
	obs, fobs := s.ObsJSON(), joinS(f.Values(), s.d.Str)
	name := algNames[op.A[0]%3]
	if op.A[1]%2 == 0 {
		setAlgebra[T](f, s.s, name)
	} else {
		setAlgebra[T](s.s, f, name)
	}
	o.Unjudged("C13 result of algebra between TreeSets of different comparators")
	if after := s.ObsJSON(); after != obs {
		o.Fail("C13", "operand-changed", "%s with a set of another comparator changed the operand:\n before %s\n after  %s", name, obs, after)
	}
	if after := joinS(f.Values(), s.d.Str); after != fobs {
		o.Fail("C13", "operand-changed", "%s with a set of another comparator changed that set: %s -> %s", name, fobs, after)
	}
}

type algWorld struct{}

var algNames = []string{"Intersection", "Union", "Difference"}

func (w *algWorld) Gen(seed uint64, tier string) *Plan {
	r := NewRng(seed)
	if r.P(1, 600) {
		return genScale(r, "C13")
	}
	cfg := genCfg(r, setKinds, tier)
	if cfg.Dom > 32 {
		cfg.Dom = []int{4, 8, 12, 16, 24, 32}[r.Intn(6)]
	}
	if cfg.Kind == "treeset" && r.P(1, 8) {
		useFloat(r, &cfg)
	}
	lopsided := cfg.Elem != "float" && r.P(1, 25)
	if lopsided {
		cfg.Dom = 1024 // one operand of several hundred members, the other of a handful (sizes apart by two orders of magnitude)
	}
	p := &Plan{World: "alg", Cfg: cfg}
	a := makeSubject(cfg, false)
	b := a.Fresh()
	subj := []Subject{a, b}
	clients := []*Client{{Role: setRoles[r.Intn(len(setRoles))]}, {Role: setRoles[r.Intn(len(setRoles))]}}
	p.Clients = []string{clients[0].Role, clients[1].Role}
	// relation between the operands: disjoint / overlapping / nested / equal / one empty
	rel := r.PickS("free", "free", "disjoint", "nested", "equal", "a-empty", "b-empty", "a-larger", "b-larger")
	n := []int{4, 8, 16, 30, 60}[r.Intn(5)]
	if lopsided {
		big := r.Intn(2)
		op := genFill(r, 0, 300, 900)
		op.X = big
		subj[big].ModelApply(op)
		p.Ops = append(p.Ops, op)
		rel = []string{"b-larger", "a-larger"}[big] // (most of the few further operations go to the small operand)
		n = []int{3, 6, 10}[r.Intn(3)]
	}
	p.Cfg.Mode = rel
	half := cfg.Dom / 2
	id := len(p.Ops)
	for i := 0; i < n; i++ {
		t := r.Intn(2)
		switch rel {
		case "a-empty":
			t = 1
		case "b-empty":
			t = 0
		case "a-larger":
			if r.P(3, 4) {
				t = 0
			}
		case "b-larger":
			if r.P(3, 4) {
				t = 1
			}
		}
		op := subj[t].GenOp(r, id, clients[t])
		if rel == "disjoint" && op.N == "Add" {
			for j := range op.A {
				if op.A[j] >= 0 {
					op.A[j] = op.A[j]%max(half, 1) + t*half
				}
			}
		}
		op.X = t
		subj[t].ModelApply(op)
		p.Ops = append(p.Ops, op)
		id++
		if (rel == "equal" || rel == "nested") && op.N != "Clear" && (rel == "equal" || op.N == "Add") {
			op2 := op
			op2.ID = id
			op2.X = 1 - t
			if rel == "nested" && t == 0 {
				// b gets everything a gets, a only its own: a is a subset of b
			} else if rel == "nested" {
				continue
			}
			subj[1-t].ModelApply(op2)
			p.Ops = append(p.Ops, op2)
			id++
		}
		if cfg.Kind == "treeset" && r.P(1, 10) {
			p.Ops = append(p.Ops, Op{ID: id, N: "Foreign", X: r.Intn(2), A: append([]int{r.Intn(3), r.Intn(2)}, genIdxs(r, r.Intn(4), cfg.Dom)...)})
			id++
		}
		if r.P(1, 6) || i == n-1 {
			k := r.Range(1, 3)
			for j := 0; j < k; j++ {
				p.Ops = append(p.Ops, Op{ID: id, N: algNames[r.Intn(3)], X: r.Weighted(5, 5, 1, 1)})
				id++
			}
		}
	}
	return p
}

func (w *algWorld) Exec(p *Plan, st *RunStats) *Violation {
	if p.World == "scale" {
		return execScale(p, st, "C13")
	}
	attach(p)
	start := stepCount
	a := makeSubject(p.Cfg, false)
	b := a.Fresh()
	subj := []Subject{a, b}
	o := NewOracle("C13", "C13")
	o.Kind = p.Cfg.Kind
	nonEmpty := 0
	for _, op := range p.Ops {
		op := op
		st.Ops++
		switch op.N {
		case "Intersection", "Union", "Difference":
			safely(o, op, func() {
				if a.(AlgSubject).Algebra(b, op, o) {
					nonEmpty++
				}
			})
		case "Foreign":
			safely(o, op, func() {
				subj[op.X&1].(interface{ ForeignAlgebra(Op, *Oracle) }).ForeignAlgebra(op, o)
			})
		default:
			safely(o, op, func() { subj[op.X&1].Step(op, o) })
		}
		if traceOn {
			trace("op %d %s -> %016x %016x", op.ID, op.N, hashStr(a.Obs()), hashStr(b.Obs()))
		}
		if o.Failed() {
			break
		}
	}
	if !o.Failed() && p.Cfg.Kind == "treeset" && p.Cfg.MapSeed%4 == 2 {
		probe := Op{ID: -1, N: "PointerElementsWithDereferencingComparator"}
		safely(o, probe, func() { o.cur = probe; pointerElementsProbe(o, "C13", "treeset", int(p.Cfg.MapSeed>>36)) })
	}
	st.Steps = stepCount - start
	st.NonTrivial = nonEmpty >= 1
	st.Unjudged = o.Unj
	return o.V
}
