package main

import (
	"fmt"
	"slices"
	"strconv"

	"github.com/emirpasic/gods/v2/containers"
	"github.com/emirpasic/gods/v2/maps"
	"github.com/emirpasic/gods/v2/sets"
)

// Scale runs. The reference models of the history worlds are quadratic in the container size, so
// those worlds stay below a few thousand elements (tens of thousands for the sequence containers).
// Behaviour that only starts beyond such sizes - a path taken above 32 768 entries, a red-black tree more
// than 32 levels deep on one side, a table that is rebuilt instead of cleared - is met by the scale
// runs: one run in several hundred builds a container of 33 000 - 262 144 integer keys in ascending,
// descending or strided order and judges it against closed-form expectations (the keys are the even
// numbers 2..2n, so every answer is arithmetic), through growth, removal of half the keys, Clear and
// re-use. Each history world draws them for its own property and reports them under it.

var scaleKinds = map[string][]string{
	"C01": {"hashmap", "treemap", "linkedhashmap", "redblacktree", "avltree", "btree"},
	"C02": {"redblacktree", "avltree", "btree", "treemap", "treeset", "treebidimap", "redblacktree", "treemap"},
	"C04": {"hashset", "treeset", "linkedhashset"},
	"C09": {"linkedhashmap", "linkedhashset"},
	"C10": {"hashbidimap", "treebidimap"},
	"C13": {"hashset", "treeset", "linkedhashset"},
	"C15": {"hashmap", "linkedhashmap", "hashbidimap", "treemap", "btree", "hashset", "linkedhashset", "treeset", "treebidimap"},
}

func genScale(r *Rng, prop string) *Plan {
	kinds := scaleKinds[prop]
	cfg := Cfg{Kind: kinds[r.Intn(len(kinds))], Elem: "int", Cmp: "nat", Mode: "scale", Dom: 4, MapSeed: r.U64()}
	if cfg.Kind == "treebidimap" {
		cfg.VCmp = "nat"
	}
	if kvIsBidi(cfg.Kind) {
		cfg.VDom = 2
	}
	if cfg.Kind == "btree" {
		cfg.Order = []int{3, 4, 8, 64}[r.Intn(4)]
	}
	n := r.Range(33_000, 70_000)
	treeBacked := kvDisciplineIsTree(cfg.Kind)
	deep := prop == "C02" || treeBacked && prop != "C13" && r.P(1, 3)
	if deep {
		n = []int{200_000, 262_144}[r.Intn(2)] // descending: the red-black tree's left spine passes 32 levels
	}
	if n%7919 == 0 {
		n++
	}
	order := r.Intn(3)
	if deep {
		order = r.Intn(2)
	}
	return &Plan{World: "scale", Cfg: cfg, Ops: []Op{{ID: 0, N: "Scale", A: []int{n, order}}}}
}

func kvDisciplineIsTree(kind string) bool {
	switch kind {
	case "treeset", "treemap", "redblacktree", "avltree", "btree", "treebidimap":
		return true
	}
	return false
}

var scaleOrders = []string{"ascending", "descending", "strided"}

func execScale(p *Plan, st *RunStats, prop string) *Violation {
	attach(p)
	start := stepCount
	saveLimit := stepLimit
	stepLimit = 1 << 40 // one bulk call over tens of thousands of elements passes more sites than any call elsewhere
	defer func() { stepLimit, opSteps = saveLimit, 0 }()
	o := NewOracle(prop, prop)
	o.Kind = p.Cfg.Kind
	if len(p.Ops) == 0 || p.Ops[0].N != "Scale" || len(p.Ops[0].A) < 2 {
		return nil
	}
	op := p.Ops[0]
	n, order := op.A[0], op.A[1]%3
	if n < 8 {
		n = 8
	}
	n += n % 2
	stride := 7919
	if n%stride == 0 {
		stride = 7907
	}
	key := func(i int) int { // the i-th inserted key (i in 0..n-1): a permutation of the even numbers 2..2n
		switch order {
		case 0:
			return 2 * (i + 1)
		case 1:
			return 2 * (n - i)
		}
		return 2 * ((i*stride)%n + 1)
	}
	what := fmt.Sprintf("%d keys inserted in %s order", n, scaleOrders[order])
	safely(o, op, func() {
		o.cur = op
		switch familyOf(p.Cfg.Kind) {
		case "kv":
			scaleKV(o, prop, p.Cfg, n, key, what)
		case "set":
			if prop == "C13" {
				scaleAlg(o, p.Cfg, n, key, what)
			} else {
				scaleSet(o, prop, p.Cfg, n, key, what)
			}
		}
	})
	st.Ops = 1
	st.Steps = stepCount - start
	st.MaxSize = n
	st.NonTrivial = true
	st.Probe("scale-run")
	return o.V
}

// sampled indices 0..n-1: the ends, and every 997th in between
func scaleSamples(n int) []int {
	out := []int{0, 1, 2, n - 3, n - 2, n - 1}
	for i := 500; i < n; i += 997 {
		out = append(out, i)
	}
	return out
}

func scaleKV(o *Oracle, prop string, cfg Cfg, n int, key func(int) int, what string) {
	s := makeSubject(cfg, false).(*kvSubj[int])
	m := s.m
	disc := kvDiscipline(cfg.Kind)
	bidi := kvIsBidi(cfg.Kind)
	val := func(k int) string {
		if bidi {
			return "w" + strconv.Itoa(k)
		}
		return "v" + strconv.Itoa(k%97)
	}
	fail := func(id, format string, args ...any) {
		o.Fail(prop, "scale-"+id, "%s with %s: %s", cfg.Kind, what, fmt.Sprintf(format, args...))
	}
	for i := 0; i < n; i++ {
		m.Put(key(i), val(key(i)))
	}
	// live(k): is the even key k present at the current stage; count: how many are
	stage := func(stageName string, live func(k int) bool, count int, inserted func(i int) int, nIns int) {
		if o.Failed() {
			return
		}
		if m.Size() != count || m.Empty() != (count == 0) {
			fail("size", "%s: Size()=%d Empty()=%v, want %d", stageName, m.Size(), m.Empty(), count)
			return
		}
		keys, vals := m.Keys(), m.Values()
		if len(keys) != count || len(vals) != count {
			fail("keys-values-len", "%s: len(Keys())=%d len(Values())=%d, want %d", stageName, len(keys), len(vals), count)
			return
		}
		var want []int
		for i := 0; i < nIns; i++ {
			if k := inserted(i); live(k) {
				want = append(want, k)
			}
		}
		switch disc {
		case "tree":
			slices.Sort(want)
		case "hash":
			slices.Sort(want)
			keys = slices.Clone(keys)
			slices.Sort(keys)
		}
		for i := range want {
			if keys[i] != want[i] {
				fail("keys", "%s: Keys()[%d]=%d, want %d (%s order)", stageName, i, keys[i], want[i], disc)
				return
			}
		}
		if disc != "hash" && cfg.Kind != "treebidimap" {
			for i := range want {
				if vals[i] != val(want[i]) {
					fail("values", "%s: Values()[%d]=%q, want %q (aligned with Keys())", stageName, i, vals[i], val(want[i]))
					return
				}
			}
		}
		for _, i := range scaleSamples(n) {
			k := 2 * (i + 1)
			v, ok := m.Get(k)
			if ok != live(k) || (ok && v != val(k)) {
				fail("get", "%s: Get(%d)=(%q,%v), want present=%v value %q", stageName, k, v, ok, live(k), val(k))
				return
			}
			if _, ok := m.Get(k + 1); ok {
				fail("get", "%s: Get(%d) reports a key that was never inserted", stageName, k+1)
				return
			}
			if bm, isB := m.(maps.BidiMap[int, string]); isB {
				gk, ok := bm.GetKey(val(k))
				if ok != live(k) || (ok && gk != k) {
					fail("getkey", "%s: GetKey(%q)=(%d,%v), want present=%v key %d", stageName, val(k), gk, ok, live(k), k)
					return
				}
			}
		}
		for _, k := range []int{0, -2, 2*n + 2, 1 << 40} {
			if _, ok := m.Get(k); ok {
				fail("get", "%s: Get(%d) reports a key that was never inserted", stageName, k)
				return
			}
		}
		if it := s.keyIter(); it != nil {
			i := 0
			for it.Next() {
				if i >= len(want) || it.Key() != want[i] || it.Value() != val(want[i]) {
					fail("iterator", "%s: iterator element %d is (%d,%q), want key %d", stageName, i, it.Key(), it.Value(), at(want, i))
					return
				}
				i++
			}
			if i != len(want) {
				fail("iterator", "%s: the iterator yields %d elements, want %d", stageName, i, len(want))
				return
			}
			if rit, ok := it.(containers.ReverseIteratorWithKey[int, string]); ok {
				i := len(want)
				for rit.End(); rit.Prev(); {
					i--
					if i < 0 || rit.Key() != want[i] {
						fail("iterator-reverse", "%s: reverse iteration element %d is %d, want %d", stageName, i, rit.Key(), at(want, i))
						return
					}
				}
				if i != 0 {
					fail("iterator-reverse", "%s: reverse iteration stops with %d elements to go", stageName, i)
					return
				}
			}
		}
		if nav := s.nav(); nav != nil && disc == "tree" {
			k, _, ok := nav.min()
			if ok != (count > 0) || (ok && k != want[0]) {
				fail("min", "%s: Left/Min=(%d,%v), want %d", stageName, k, ok, at(want, 0))
				return
			}
			k, _, ok = nav.max()
			if ok != (count > 0) || (ok && k != want[len(want)-1]) {
				fail("max", "%s: Right/Max=(%d,%v), want %d", stageName, k, ok, at(want, len(want)-1))
				return
			}
			if nav.floor != nil && count > 0 {
				for _, i := range scaleSamples(len(want)) {
					// an odd probe just above want[i]: floor is want[i], ceiling is want[i+1]
					pk := want[i] + 1
					fk, _, fok := nav.floor(pk)
					if !fok || fk != want[i] {
						fail("floor", "%s: Floor(%d)=(%d,%v), want %d", stageName, pk, fk, fok, want[i])
						return
					}
					ck, _, cok := nav.ceiling(pk)
					if i+1 < len(want) {
						if !cok || ck != want[i+1] {
							fail("ceiling", "%s: Ceiling(%d)=(%d,%v), want %d", stageName, pk, ck, cok, want[i+1])
							return
						}
					} else if cok {
						fail("ceiling", "%s: Ceiling(%d)=(%d,true) above the maximum", stageName, pk, ck)
						return
					}
				}
				if _, _, ok := nav.floor(want[0] - 1); ok {
					fail("floor", "%s: Floor below the minimum reports found", stageName)
					return
				}
			}
		}
	}
	all := func(int) bool { return true }
	stage("after the insertions", all, n, key, n)
	// remove the keys divisible by 4 (half of them), in insertion order
	removed := 0
	for i := 0; i < n && !o.Failed(); i++ {
		if k := key(i); k%4 == 0 {
			m.Remove(k)
			removed++
		}
	}
	stage("after removing every key divisible by 4", func(k int) bool { return k%4 != 0 }, n-removed, key, n)
	if o.Failed() {
		return
	}
	m.Clear()
	stage("after Clear", func(int) bool { return false }, 0, key, n)
	if o.Failed() {
		return
	}
	if prop == "C15" {
		if g, w := jsonText(m.(jsonIO)), jsonText(makeSubject(cfg, false).IO()); g != w {
			fail("cleared-vs-fresh", "after Clear ToJSON gives %s, a freshly constructed one %s", g, w)
			return
		}
	}
	// re-use after Clear: a few keys, as on a fresh container
	small := []int{10, 2, 6}
	for _, k := range small {
		m.Put(k, val(k))
	}
	stage("after Clear and three more Puts", func(k int) bool { return k == 2 || k == 6 || k == 10 }, 3, func(i int) int { return small[i] }, 3)
}

func at(xs []int, i int) int {
	if i >= 0 && i < len(xs) {
		return xs[i]
	}
	return -1
}

func scaleSetCheck(o *Oracle, prop string, cfg Cfg, s sets.Set[int], stageName, what string, want []int) bool {
	fail := func(id, format string, args ...any) {
		o.Fail(prop, "scale-"+id, "%s with %s: %s: %s", cfg.Kind, what, stageName, fmt.Sprintf(format, args...))
	}
	if s.Size() != len(want) || s.Empty() != (len(want) == 0) {
		fail("size", "Size()=%d Empty()=%v, want %d", s.Size(), s.Empty(), len(want))
		return false
	}
	vals := s.Values()
	if len(vals) != len(want) {
		fail("values-len", "len(Values())=%d, want %d", len(vals), len(want))
		return false
	}
	want = slices.Clone(want)
	switch cfg.Kind {
	case "treeset":
		slices.Sort(want)
	case "hashset":
		slices.Sort(want)
		vals = slices.Clone(vals)
		slices.Sort(vals)
	}
	for i := range want {
		if vals[i] != want[i] {
			fail("values", "Values()[%d]=%d, want %d", i, vals[i], want[i])
			return false
		}
	}
	for _, i := range scaleSamples(len(want)) {
		if i < 0 || i >= len(want) {
			continue
		}
		if !s.Contains(want[i]) || s.Contains(want[i]+1) || !s.Contains(want[i], want[0]) || s.Contains(want[i], -7) {
			fail("contains", "Contains answers wrongly around member %d", want[i])
			return false
		}
	}
	if it := setIter(s); it != nil {
		i := 0
		for it.Next() {
			if i >= len(want) || it.Value() != want[i] || it.Index() != i {
				fail("iterator", "iterator element %d is (%d,%d), want %d", i, it.Index(), it.Value(), at(want, i))
				return false
			}
			i++
		}
		if i != len(want) {
			fail("iterator", "the iterator yields %d elements, want %d", i, len(want))
			return false
		}
	}
	return true
}

func scaleSet(o *Oracle, prop string, cfg Cfg, n int, key func(int) int, what string) {
	s := newSetSubj(cfg, intDom(4, "nat", 0), false).s
	var ins []int
	for i := 0; i < n; i++ {
		ins = append(ins, key(i))
	}
	for i := 0; i < n; i += 1000 { // variadic batches
		s.Add(ins[i:min(i+1000, n)]...)
	}
	if !scaleSetCheck(o, prop, cfg, s, "after the insertions", what, ins) {
		return
	}
	var rest, gone []int
	for _, k := range ins {
		if k%4 == 0 {
			gone = append(gone, k)
		} else {
			rest = append(rest, k)
		}
	}
	for i := 0; i < len(gone); i += 777 {
		s.Remove(gone[i:min(i+777, len(gone))]...)
	}
	if !scaleSetCheck(o, prop, cfg, s, "after removing every member divisible by 4", what, rest) {
		return
	}
	s.Clear()
	if !scaleSetCheck(o, prop, cfg, s, "after Clear", what, nil) {
		return
	}
	if prop == "C15" {
		if g, w := jsonText(s.(jsonIO)), jsonText(newSetSubj(cfg, intDom(4, "nat", 0), false).IO()); g != w {
			o.Fail(prop, "scale-cleared-vs-fresh", "%s with %s: after Clear ToJSON gives %s, a freshly constructed one %s", cfg.Kind, what, g, w)
			return
		}
	}
	s.Add(10, 2, 6)
	scaleSetCheck(o, prop, cfg, s, "after Clear and Add(10, 2, 6)", what, []int{10, 2, 6})
}

// scaleAlg: a holds the even numbers 2..2n, b the even numbers n+2..3n (n rounded down to even): the
// three results and their sizes are arithmetic.
func scaleAlg(o *Oracle, cfg Cfg, n int, key func(int) int, what string) {
	d := intDom(4, "nat", 0)
	a, b := newSetSubj(cfg, d, false), newSetSubj(cfg, d, false) // (the same comparator function: the same Dom)
	var as, bs []int
	for i := 0; i < n; i++ {
		k := key(i)
		as = append(as, k)
		bs = append(bs, k+n)
	}
	a.s.Add(as...)
	b.s.Add(bs...)
	inA := func(k int) bool { return k%2 == 0 && k >= 2 && k <= 2*n }
	inB := func(k int) bool { return k%2 == 0 && k >= n+2 && k <= 3*n }
	filter := func(xs []int, keep func(int) bool) []int {
		var out []int
		for _, x := range xs {
			if keep(x) {
				out = append(out, x)
			}
		}
		return out
	}
	for _, c := range []struct {
		name string
		recv *setSubj[int]
		arg  *setSubj[int]
		want []int
	}{
		{"a.Intersection(b)", a, b, nil},
		{"b.Intersection(a)", b, a, nil},
		{"a.Union(b)", a, b, nil},
		{"a.Difference(b)", a, b, nil},
		{"b.Difference(a)", b, a, nil},
		{"a.Intersection(a)", a, a, nil},
	} {
		var want []int
		recvIns, argIns := as, bs
		if c.recv == b {
			recvIns, argIns = bs, as
		}
		switch c.name {
		case "a.Intersection(b)", "b.Intersection(a)":
			// linked sets keep the order of the operand they walk; judged as a set unless it is a TreeSet
			want = filter(recvIns, func(k int) bool { return inA(k) && inB(k) })
		case "a.Union(b)":
			want = append(slices.Clone(recvIns), filter(argIns, func(k int) bool { return !inA(k) })...)
		case "a.Difference(b)":
			want = filter(recvIns, func(k int) bool { return !inB(k) })
		case "b.Difference(a)":
			want = filter(recvIns, func(k int) bool { return !inA(k) })
		default:
			want = slices.Clone(as)
		}
		res := setAlgebra[int](c.recv.s, c.arg.s, c.name[2:len(c.name)-3])
		got := res.Values()
		if cfg.Kind == "treeset" {
			if !slices.IsSorted(got) {
				o.Fail("C13", "scale-treeset-result-order", "%s with operands of %d members (%s): the TreeSet result is not ascending", c.name, n, what)
				return
			}
		}
		g, w := slices.Clone(got), slices.Clone(want)
		slices.Sort(g)
		slices.Sort(w)
		if !slices.Equal(g, w) {
			first := -1
			for i := 0; i < min(len(g), len(w)); i++ {
				if g[i] != w[i] {
					first = i
					break
				}
			}
			o.Fail("C13", "scale-members", "%s with operands of %d members (%s): the result has %d members, want %d (first difference at sorted position %d)", c.name, n, what, len(g), len(w), first)
			return
		}
		if res.Size() != len(want) {
			o.Fail("C13", "scale-result-size", "%s: result Size()=%d with %d members", c.name, res.Size(), len(want))
			return
		}
		if a.s.Size() != n || b.s.Size() != n {
			o.Fail("C13", "scale-operand-changed", "%s changed an operand: sizes %d and %d, want %d", c.name, a.s.Size(), b.s.Size(), n)
			return
		}
		// independence: mutate the result
		res.Add(-1)
		res.Remove(2, n+2)
		if a.s.Contains(-1) || b.s.Contains(-1) || !a.s.Contains(2) || !b.s.Contains(n+2) {
			o.Fail("C13", "scale-result-shares-state", "mutating the result of %s changed an operand", c.name)
			return
		}
	}
	if !scaleSetCheck(o, "C13", cfg, a.s, "operand a after the algebra", what, as) {
		return
	}
	scaleSetCheck(o, "C13", cfg, b.s, "operand b after the algebra", what, bs)
}
