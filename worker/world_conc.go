package main

import (
	"fmt"
	"os"
	"path/filepath"
	"sort"
	"strconv"
	"strings"
	"sync"

	"github.com/emirpasic/gods/v2/simrt"
)

// C18: read-only operations are pure and safe for concurrent readers.
//
// Simulated clients are goroutines parked on their own channels; exactly one runs at a time, and
// the seeded scheduler decides at every yield site (every block of the instrumented library) who
// runs next, so an execution is a pure function of the plan. The handoffs are wrapped in
// runtime.RaceDisable/RaceEnable: the race detector does not see the scheduler's channel
// synchronisation, so readers look unsynchronised to it - exactly what they are under a caller-side
// RWMutex - and any write by a reader to memory another reader touches is reported whatever
// interleaving actually happened. Scheduler state lives in //go:norace functions.

type task struct {
	id      int
	wake    chan struct{}
	script  []Op
	results []string
	done    bool
	opIdx   int
	opID    int
	yields  int // yield index within the current op
	inOp    bool
	panicV  any
	panicSt string
}

var (
	curTask    *task
	schedCh    chan int
	schedSeed  uint64
	schedStrat string
	schedP     uint64 // switch probability per mille
	switches   int
	inOpSwitch int
	schedHash  uint64
	schedTrace []string
)

//go:norace
func schedDecide(t *task) bool {
	x := mix(schedSeed, uint64(t.opID)*1000003+uint64(t.yields))
	switch schedStrat {
	case "every-yield":
		return true
	case "coarse":
		return false
	}
	return x%1000 < schedP
}

//go:norace
func schedHook(site int) {
	stepCount++
	opSteps++
	siteHits[site]++
	t := curTask
	if t == nil {
		if opSteps > stepLimit {
			opSteps = 0
			panic(nonTermination{stepLimit})
		}
		return
	}
	t.yields++
	if t.yields > 20_000_000 {
		panic(nonTermination{20_000_000})
	}
	if !schedDecide(t) {
		return
	}
	if t.inOp {
		inOpSwitch++
	}
	handoff(t)
}

//go:norace
func handoff(t *task) {
	raceDisable()
	schedCh <- t.id
	<-t.wake
	raceEnable()
}

// runTask executes a reader's script. Results go to the task's own slots, read by the scheduler
// goroutine only after the WaitGroup join.
func runTask(t *task, s Subject, mu *sync.RWMutex, wg *sync.WaitGroup) {
	waitFirst(t)
	mu.RLock()
	for i := range t.script {
		func() {
			defer func() {
				if r := recover(); r != nil {
					taskPanicked(t, r)
				}
			}()
			beginOp(t, i)
			res := s.DoRead(t.script[i])
			endOp(t, res)
		}()
	}
	mu.RUnlock()
	wg.Done()
	finish(t)
}

//go:norace
func waitFirst(t *task) {
	raceDisable()
	<-t.wake
	raceEnable()
}

//go:norace
func beginOp(t *task, i int) {
	t.opIdx, t.opID, t.yields, t.inOp = i, t.script[i].ID, 0, true
}

//go:norace
func endOp(t *task, res string) {
	t.results[t.opIdx] = res
	t.inOp = false
	// an op boundary is a scheduling point too
	x := mix(schedSeed, uint64(t.opID)*7+3)
	if schedStrat == "coarse" && x%2 == 0 || schedStrat != "coarse" && x%1000 < schedP*4 {
		handoff(t)
	}
}

//go:norace
func taskPanicked(t *task, r any) {
	if t.panicV == nil {
		t.panicV = r
		origin, frames := panicOrigin()
		if _, ok := r.(nonTermination); ok {
			origin = "gods"
		}
		t.panicSt = origin + "\n" + strings.Join(frames, "\n")
	}
	t.results[t.opIdx] = fmt.Sprintf("PANIC: %v", r)
	t.inOp = false
}

//go:norace
func finish(t *task) {
	t.done = true
	raceDisable()
	schedCh <- t.id
	raceEnable()
}

//go:norace
func schedule(tasks []*task) {
	runnable := len(tasks)
	var last *task
	counter := uint64(0)
	for runnable > 0 {
		var cands []*task
		for _, t := range tasks {
			if !t.done {
				cands = append(cands, t)
			}
		}
		counter++
		next := cands[int(mix(schedSeed^0xabcdef, counter)%uint64(len(cands)))]
		if schedStrat == "every-yield" && len(cands) > 1 && next == last {
			next = cands[(int(counter))%len(cands)]
		}
		if next != last {
			switches++
			schedHash = mix(schedHash, uint64(next.id)<<40^uint64(next.opID)<<20^uint64(next.yields))
			if traceOn {
				schedTrace = append(schedTrace, fmt.Sprintf("switch->%d@op%d/y%d", next.id, next.opID, next.yields))
			}
		}
		last = next
		curTask = next
		raceDisable()
		next.wake <- struct{}{}
		<-schedCh
		raceEnable()
		curTask = nil
		if next.done {
			runnable--
		}
	}
}

// readOther is the second set handed to the readers' algebra operations (C18 world, set kinds).
var readOther Subject

type concWorld struct{}

var concKinds = allKinds

func (w *concWorld) Gen(seed uint64, tier string) *Plan {
	r := NewRng(seed)
	cfg := genCfg(r, concKinds, tier)
	cfg.Dom = []int{4, 6, 8, 12, 16, 24}[r.Intn(6)]
	cfg.Strat = r.PickS("random", "random", "random", "every-yield", "coarse")
	cfg.SwitchP = []int{5, 50, 500}[r.Intn(3)]
	if floatOK("C18", cfg.Kind) && r.P(1, 12) {
		useFloat(r, &cfg)
	}
	p := &Plan{World: "conc", Cfg: cfg, SchedSeed: r.U64()}
	s := makeSubject(cfg, false)
	roles := s.(Roler).Roles()
	c := &Client{Role: roles[r.Intn(len(roles))]}
	nReaders := r.Range(2, 4)
	p.Clients = []string{"writer:" + c.Role}
	for i := 0; i < nReaders; i++ {
		p.Clients = append(p.Clients, "reader")
	}
	p.Readers = make([][]Op, nReaders)
	phases := r.Range(1, 3)
	if tier == "thorough" {
		phases = r.Range(1, 6)
	}
	id := 0
	if r.P(1, 12) {
		// a large container (heap levels wider than 32 elements, trees several levels deep)
		p.Cfg.Dom = []int{24, 128, 512}[r.Intn(3)]
		s = makeSubject(p.Cfg, false)
		op := genFill(r, id, 97, 400)
		s.ModelApply(op)
		p.Ops = append(p.Ops, op)
		id++
	} else if r.P(1, 50) {
		// peak and shrink: well over a thousand elements, then all but a few removed in one step, so the
		// readers meet whatever a container keeps from its larger past (spare capacity, tombstones, ...)
		p.Cfg.Dom = 4096
		s = makeSubject(p.Cfg, false)
		op := Op{ID: id, N: "Fill", A: []int{r.Range(1100, 3000), r.Intn(1000), 7}}
		s.ModelApply(op)
		p.Ops = append(p.Ops, op)
		id++
		op = Op{ID: id, N: "Shrink", A: []int{r.Range(2, max(3, s.ModelSize()/r.Range(8, 40)))}}
		s.ModelApply(op)
		p.Ops = append(p.Ops, op)
		id++
	} else if r.P(1, deepEvery) {
		// a deep tree: thousands of keys inserted in ascending order (a B-tree of order 3 is then 13 levels
		// deep), and every reader runs the whole read catalogue in the same order: whatever a read-only
		// operation prepares or caches on first meeting such a depth - in the container or in the package -
		// is met by all readers at once, before any sequential reference call has warmed it
		p.Cfg.Kind = r.PickS("btree", "btree", "btree", "redblacktree", "avltree", "treemap", "treeset", "linkedhashmap", "hashmap")
		p.Cfg.Elem, p.Cfg.Cmp, p.Cfg.VCmp, p.Cfg.Ctor, p.Cfg.Order, p.Cfg.Cap, p.Cfg.VDom = "int", "nat", "", "", 0, 0, 0
		p.Cfg.Dom = 8300
		p.Cfg.Strat, p.Cfg.SwitchP = "random", 5
		if p.Cfg.Kind == "btree" {
			p.Cfg.Order = []int{3, 3, 4}[r.Intn(3)]
		}
		s = makeSubject(p.Cfg, false)
		op := Op{ID: id, N: "Fill", A: []int{r.Range(8192, 8280), 0, 1}}
		s.ModelApply(op)
		p.Ops = append(p.Ops, op, Op{ID: id + 1, N: "ReadPhase", A: []int{0}})
		id += 2
		var names []string
		seen := map[string]bool{}
		// four deep runs in five are light: only the calls that print, serialise or measure the whole structure
		light := map[string]bool{"String": true, "ToJSON": true, "MarshalJSON": true, "Values": true, "Keys": true, "Height": true, "Size": true, "Min": true, "Max": true}
		full := r.P(1, 5)
		for k := 0; k < 400; k++ {
			if n := s.GenRead(r, 0).N; !seen[n] && (full || light[n]) {
				seen[n] = true
				names = append(names, n)
			}
		}
		p.Readers, p.Clients = p.Readers[:2], p.Clients[:3]
		for ri := range p.Readers {
			for _, n := range names {
				op := s.GenRead(r, id)
				for k := 0; k < 400 && op.N != n; k++ {
					op = s.GenRead(r, id)
				}
				if op.N != n {
					continue
				}
				op.C = ri + 1
				id++
				p.Readers[ri] = append(p.Readers[ri], op)
			}
		}
		return p
	}
	for ph := 0; ph < phases; ph++ {
		for n := []int{0, 2, 5, 10, 20, 40}[r.Intn(6)]; n > 0; n-- {
			op := s.GenOp(r, id, c)
			id++
			s.ModelApply(op)
			p.Ops = append(p.Ops, op)
		}
		p.Ops = append(p.Ops, Op{ID: id, N: "ReadPhase", A: []int{ph}})
		id++
		focus := ""
		if r.P(1, 3) {
			focus = s.GenRead(r, 0).N // several readers hammer the same operation
		}
		for ri := 0; ri < nReaders; ri++ {
			for n := r.Range(1, 8); n > 0; n-- {
				op := s.GenRead(r, id)
				if focus != "" && r.P(2, 3) {
					for k := 0; k < 20 && op.N != focus; k++ {
						op = s.GenRead(r, id)
					}
				}
				op.X = ph
				op.C = ri + 1
				id++
				p.Readers[ri] = append(p.Readers[ri], op)
			}
		}
	}
	return p
}

var raceLogPrefix string

func readRaceLog() string {
	if raceLogPrefix == "" {
		return ""
	}
	files, _ := filepath.Glob(raceLogPrefix + ".*")
	sort.Strings(files)
	var sb strings.Builder
	for _, f := range files {
		b, _ := os.ReadFile(f)
		sb.Write(b)
	}
	s := sb.String()
	if len(s) > 6000 {
		s = s[:6000] + "\n…"
	}
	return s
}

func (w *concWorld) Exec(p *Plan, st *RunStats) *Violation {
	permSeed, permCounter = p.Cfg.MapSeed, 0
	simrt.Perm = permHook
	simrt.Hook = schedHook
	curTask = nil
	schedSeed, schedStrat, schedP = p.SchedSeed, p.Cfg.Strat, uint64(p.Cfg.SwitchP)
	switches, inOpSwitch, schedHash, schedTrace = 0, 0, 0, nil
	start := stepCount
	s := makeSubject(p.Cfg, false)
	// deep-tree runs (thousands of keys) do without the twin and without the per-call memory images: the race
	// detector and the comparison with the sequential results remain
	deep := p.Cfg.Dom > 4096
	twin := s
	if !deep {
		twin = makeSubject(p.Cfg, false)
	}
	var other Subject // sets: the argument of Intersection/Union/Difference (never observed by the harness)
	if familyOf(p.Cfg.Kind) == "set" {
		other = s.Fresh()
		readOther = other
	} else {
		readOther = nil
	}
	o := NewOracle("C18", "C18")
	o.Kind = p.Cfg.Kind
	inert := NewOracle("C18")
	var mu sync.RWMutex
	concurrentPhases := 0
	races0 := raceErrors()

	// concurrentRun executes the scripts as reader tasks on subject sub under the seeded scheduler.
	concurrentRun := func(sub Subject, scripts [][]Op) []*task {
		tasks := make([]*task, len(scripts))
		var wg sync.WaitGroup
		schedCh = make(chan int)
		for i, sc := range scripts {
			tasks[i] = &task{id: i, wake: make(chan struct{}), script: sc, results: make([]string, len(sc))}
			wg.Add(1)
			go runTask(tasks[i], sub, &mu, &wg)
		}
		schedule(tasks)
		wg.Wait() // the join: results are read after a real happens-before edge
		concurrentPhases++
		for _, t := range tasks {
			if t.panicV != nil {
				if strings.HasPrefix(t.panicSt, "gods") {
					o.cur = t.script[t.opIdx]
					if nt, ok := t.panicV.(nonTermination); ok {
						o.Fail("C18", "non-termination", "reader %d: %s did not terminate within %d yields under concurrent readers", t.id, o.cur, nt.steps)
					} else {
						o.Fail("C18", "panic", "reader %d: %s panicked under concurrent readers: %v\n%s", t.id, o.cur, t.panicV, t.panicSt)
					}
					return nil
				}
				fmt.Fprintf(diag, "HARNESS BUG: reader task panicked outside the library: %v\n%s\n", t.panicV, t.panicSt)
				panic(harnessBug{t.panicV})
			}
		}
		if n := raceErrors(); n != races0 {
			o.Fail("C18", "data-race", "the race detector reported %d data race(s) during concurrent read-only calls (%d readers, strategy %s)", n-races0, len(scripts), schedStrat)
			if o.V != nil {
				o.V.Race = readRaceLog()
				if o.V.Race == "" {
					o.V.Race = "(report text not captured)"
				}
			}
			return nil
		}
		if traceOn {
			for ri, t := range tasks {
				for i := range t.script {
					trace("reader %d op %d %s -> %016x", ri, t.script[i].ID, t.script[i].N, hashStr(t.results[i]))
				}
			}
		}
		return tasks
	}
	// judge runs the readers concurrently FIRST, on the state as the writer left it (a lazily
	// initialised cache is still cold), then every scripted call alone as the sequential reference.
	judge := func(sub, twinOf Subject, phaseOp Op, scripts [][]Op) (imageChanged bool) {
		o.cur = phaseOp
		// The state before the phase is observed on a twin (an identically built second container):
		// calling observers on the container itself would already be a read and would warm any lazily
		// maintained internal structure before the concurrent readers get to it. Even the twin is observed
		// only after the concurrent phase (no reader touches it, so it reads the same before and after):
		// its observers would warm state the package keeps per process (a cache filled on first use).
		img0 := fingerprint(sub.Real())
		tasks := concurrentRun(sub, scripts)
		if tasks == nil {
			return false
		}
		pre := twinOf.ObsJSON()
		o.cur = phaseOp
		if post := pre; twinOf != sub && func() bool { post = sub.ObsJSON(); return post != pre }() {
			o.Fail("C18", "state-changed-by-readers", "the container's observable state changed during a read phase:\n before %s\n after  %s", pre, post)
			return false
		}
		img := fingerprint(sub.Real())
		imageChanged = img != img0
		for ri, sc := range scripts {
			if deep && ri > 0 {
				break // deep-tree runs: the sequential reference of the first reader only
			}
			for i, op := range sc {
				op := op
				var want string
				safely(o, op, func() { want = sub.DoRead(op) })
				if o.Failed() {
					return false
				}
				if deep {
					// (no per-call image)
				} else if img2 := fingerprint(sub.Real()); img2 != img {
					img = img2
					imageChanged = true
					if obs := sub.ObsJSON(); obs != pre {
						o.cur = op
						o.Fail("C18", "read-op-modified-container", "%s (a read-only operation) changed the container:\n before %s\n after  %s", op, pre, obs)
						return false
					}
				}
				if got := tasks[ri].results[i]; got != want {
					o.cur = op
					o.Fail("C18", "result-differs-from-sequential", "reader %d: %s returned %q under concurrent readers, %q when executed alone", ri, op, got, want)
					return false
				}
			}
		}
		if post := sub.ObsJSON(); post != pre {
			o.cur = phaseOp
			o.Fail("C18", "read-ops-modified-container", "a sequence of read-only operations changed the container:\n before %s\n after  %s", pre, post)
		}
		return imageChanged
	}
	// coldCopy rebuilds the container as the writer left it before the given phase, with no read ever
	// executed on it (the coldest state of any lazily maintained internal structure).
	coldCopy := func(upTo int) Subject {
		c := makeSubject(p.Cfg, false)
		permSeed, permCounter = p.Cfg.MapSeed, 0
		for _, op := range p.Ops {
			if op.ID == upTo {
				break
			}
			if op.N == "ReadPhase" {
				continue
			}
			op := op
			mu.Lock()
			safely(inert, op, func() { inert.V = nil; c.Step(op, inert) })
			mu.Unlock()
		}
		return c
	}
	runPhase := func(phaseOp Op, scripts [][]Op) {
		if !judge(s, twin, phaseOp, scripts) || o.Failed() {
			return
		}
		// A read-only call changed the memory image without changing anything observable. That is not a
		// verdict (a properly synchronised cache is race-free and invisible): it triggers amplification
		// runs in which each operation of the phase is executed by two tasks at once on a cold copy,
		// switching at every yield.
		st.Probe("image-changed-by-read-op")
		seen := map[string]bool{}
		saveStrat := schedStrat
		defer func() { schedStrat = saveStrat }()
		for _, sc := range scripts {
			for _, op := range sc {
				if seen[op.N] || len(seen) >= 8 {
					continue
				}
				seen[op.N] = true
				st.Probe("amplification-run")
				cold := coldCopy(phaseOp.ID)
				schedStrat = "every-yield"
				a, b := op, op
				b.ID = op.ID + 500000
				judge(cold, twin, phaseOp, [][]Op{{a}, {b}})
				if o.Failed() {
					return
				}
			}
		}
	}

	for _, op := range p.Ops {
		op := op
		st.Ops++
		if op.N == "ReadPhase" {
			scripts := make([][]Op, 0, len(p.Readers))
			for _, rs := range p.Readers {
				var sc []Op
				for _, ro := range rs {
					if ro.X == op.A[0] {
						sc = append(sc, ro)
					}
				}
				if len(sc) > 0 {
					scripts = append(scripts, sc)
				}
			}
			if len(scripts) > 0 {
				// (a library panic in one of the harness's own observations - the twin, the state after the
				// phase - is attributed like any other)
				safely(o, op, func() { runPhase(op, scripts) })
			}
		} else {
			mu.Lock()
			safely(inert, op, func() { inert.V = nil; s.Step(op, inert) })
			if twin != s {
				safely(inert, op, func() { inert.V = nil; twin.Step(op, inert) })
			}
			if other != nil && op.ID%3 != 0 { // the argument set holds two thirds of the writes: overlapping, not equal
				safely(inert, op, func() { inert.V = nil; other.Step(op, inert) })
			}
			mu.Unlock()
		}
		if o.Failed() {
			break
		}
	}
	simrt.Hook = countHook
	st.Steps = stepCount - start
	st.Switches = switches
	st.SchedHash = schedHash
	st.NonTrivial = len(p.Readers) >= 2 && inOpSwitch >= 1 && concurrentPhases >= 1
	if traceOn {
		trace("sched %s", strings.Join(schedTrace, " "))
	}
	return o.V
}

// deepEvery: one C18 run in deepEvery is a deep-tree run (VERIF_C18_DEEP overrides, for experiments).
var deepEvery = func() int {
	if v, err := strconv.Atoi(os.Getenv("VERIF_C18_DEEP")); err == nil && v > 0 {
		return v
	}
	return 100
}()
