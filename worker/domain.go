package main

import (
	"cmp"
	"fmt"
	"math"
	"strconv"
	"strings"
)

// Item is a struct element with distinguishable ties: ordered by P only.
type Item struct {
	P  int `json:"P"`
	ID int `json:"ID"`
}

// Dom is the element universe of one run: a table (ops carry indices into it), the run's
// comparator, the class function (comparator-equivalent elements have the same class; which
// representative a container keeps is unspecified, so oracles compare classes) and probes that are
// never inserted (between neighbours, below the minimum, above the maximum).
type Dom[T comparable] struct {
	Elem    string
	CmpName string
	Tab     []T
	Probes  []T
	Cmp     func(a, b T) int
	Class   func(a T) string
	Str     func(a T) string
	Ordered bool // T has a natural order and CmpName == "nat"
	Shared  []T  // see sharedArgs
}

// sharedArgs: one slice per element table (built with the table, before any reader runs) that concurrent
// read-only calls receive spread as their arguments; the harness only ever reads it.
func sharedArgs[T comparable](d *Dom[T]) []T {
	return d.Shared
}

func (d *Dom[T]) fillShared() {
	n := min(len(d.Tab), 40)
	d.Shared = make([]T, n, n+4)
	for i := range d.Shared {
		d.Shared[i] = d.Tab[(i*3)%len(d.Tab)]
	}
}

func (d *Dom[T]) At(i int) T {
	n := len(d.Tab)
	return d.Tab[((i%n)+n)%n]
}

func floorDiv(a, b int) int {
	q := a / b
	if (a%b != 0) && ((a < 0) != (b < 0)) {
		q--
	}
	return q
}

func posMod(a, b int) int { return ((a % b) + b) % b }

var specialStrings = []string{
	"a", "b", "", "ab", "A", "B", "é", "<&>", "\"q\"", "1", "2", "10", "null", "true", "{", "}", "[", "]",
	",", ":", "\\", "a b", "\t", " ", "日本", "aa", "Aa", "b:", "\"a\":", "\"1\"", "0", "-3", "k", "K",
	"\x7f", "zz", "Zz", "éa", "a,b", "{\"a\":1}", "[1]", "\n", "  ", "x", "y", "z", "X", "Y", "Z",
	"\x00", "\x01", "\x1f", "\x1b[0m", "\u0080", "\u2028", "\u2029", "\U0001F600", "\ufffd", "\\u0041", "a\x00b", "\r\n", "\v", "\a",
	"a ", " a", "a\t", "A ",
	"'", "`", "/", "\\\"", "0.5", "1e3", "-0", "01", "+1", " 1", "9007199254740993", "\U0010ffff", "e\u0301", "ß", "ǅ", "İ",
	// pairs that collide under common 32-bit hashes (neighbours, so that a rotated table holds both): CRC-32 IEEE and
	// Castagnoli (equal lengths: the collision survives any common prefix and suffix, such as JSON quotes), FNV-1a of
	// the raw and of the quoted text, FNV-1, and the base-31 polynomial hash
	"u.?D[R", "0D9w2r", "a[u^!R", ";(_=jJ", "npvwtg", "vvriho", "plutaw", "dpehqk", "zdhpuk", "enxoxp", "AaAa", "BBBB",
}

// specialInts are substituted for the last entries of the spaced table, rotated by a per-run offset.
// 2^53+1 is not representable as float64: a decoder going through float64 shows.
var specialInts = []int{math.MinInt, math.MaxInt, -1, 1, 1<<53 + 1, -(1<<53 + 1), 2, 1 << 31, -(1 << 31), 7, 100, 255, 256, 1 << 16, math.MinInt + 1, math.MaxInt - 1,
	// pairs whose decimal text (raw, or quoted as a JSON member name) collides under CRC-32 IEEE / Castagnoli, FNV-1a, FNV-1
	86821, 14740600, 9106889, 14000606, 1371838, 2000402, 1562789, 1779192, 2112789, 2349192, 1947786, 2406240}

// Plans record the version of the special-value pools they were generated with (Cfg.Pool), so that the
// minimised plans of the regression corpus keep denoting the same elements when the pools grow.
// Version 0: the pools without the hash-collision pairs (12 entries each, appended last).
var curPool int

// Version 2 adds long strings (beyond any small-string fast path; two that differ only in the last byte).
var longStrings = []string{strings.Repeat("k", 300) + "a", strings.Repeat("k", 300) + "b", strings.Repeat("é", 150), strings.Repeat("xy", 550)}
var strPoolV2 = append(append([]string(nil), specialStrings...), longStrings...)

func strPool() []string {
	switch curPool {
	case 0:
		return specialStrings[:len(specialStrings)-12]
	case 1:
		return specialStrings
	}
	return strPoolV2
}

func intPool() []int {
	if curPool == 0 {
		return specialInts[:len(specialInts)-12]
	}
	return specialInts
}

func intTab(n int, off int) []int {
	t := make([]int, n)
	seen := map[int]bool{}
	for i := range t {
		t[i] = (i - n/2) * 3
		seen[t[i]] = true
	}
	k := min(n/4, 4)
	for j := 0; j < k; j++ {
		v := intPool()[(off+j)%len(intPool())]
		if !seen[v] {
			seen[v] = true
			t[n-1-j] = v
		}
	}
	return t
}

// strTab draws n distinct strings: the pool of special strings rotated by a per-run offset (so that
// small tables also meet the unusual ones), then generated ones.
func strTab(n int, off int) []string {
	t := make([]string, n)
	for i := range t {
		if i < len(strPool()) {
			t[i] = strPool()[(i+off)%len(strPool())]
		} else {
			t[i] = fmt.Sprintf("s%03d", i)
		}
	}
	return t
}

func itemTab(n int) []Item {
	t := make([]Item, n)
	for i := range t {
		t[i] = Item{P: i/3 - n/6, ID: i}
	}
	if n >= 4 {
		t[n-1] = Item{} // the zero value of the element type
	}
	return t
}

var intCmps = []string{"nat", "rev", "div9", "mod5", "natbig", "diff", "ext"}
var strCmps = []string{"nat", "rev", "len", "fold", "natbig", "diff", "ext"}
var itemCmps = []string{"nat", "rev", "natbig", "diff", "ext"}

// natBig: the magnitude of the "natbig" comparator's results. Large enough that the product of two
// results overflows int64 and wraps to the other sign (3.5e9 squared lies between 2^63 and 2^64).
const natBig = 3_500_000_003

// extCmp turns a sign into the extreme results math.MinInt / math.MaxInt ("ext" comparators): legal,
// and -math.MinInt == math.MinInt.
func extCmp(c int) int {
	switch {
	case c < 0:
		return math.MinInt
	case c > 0:
		return math.MaxInt
	}
	return 0
}

func intDom(n int, cmpName string, off int) *Dom[int] {
	d := &Dom[int]{Elem: "int", CmpName: cmpName, Tab: intTab(n, off), Str: strconv.Itoa}
	switch cmpName {
	case "", "nat":
		d.CmpName = "nat"
		d.Cmp = cmp.Compare[int]
		d.Class = strconv.Itoa
		d.Ordered = true
	case "rev":
		d.Cmp = func(a, b int) int { return cmp.Compare(b, a) }
		d.Class = strconv.Itoa
	case "natbig": // a legal comparator that returns values other than -1/0/1
		d.Cmp = func(a, b int) int { return cmp.Compare(a, b) * natBig }
		d.Class = strconv.Itoa
	case "diff": // the classic subtraction comparator, made overflow-safe: magnitudes 1..200
		d.Cmp = intDiff
		d.Class = strconv.Itoa
	case "ext":
		d.Cmp = func(a, b int) int { return extCmp(cmp.Compare(a, b)) }
		d.Class = strconv.Itoa
	case "div9":
		d.Cmp = func(a, b int) int { return cmp.Compare(floorDiv(a, 9), floorDiv(b, 9)) }
		d.Class = func(a int) string { return "c" + strconv.Itoa(floorDiv(a, 9)) }
	case "mod5":
		d.Cmp = func(a, b int) int { return cmp.Compare(posMod(a, 5), posMod(b, 5)) }
		d.Class = func(a int) string { return "c" + strconv.Itoa(posMod(a, 5)) }
	default:
		panic("unknown int comparator " + cmpName)
	}
	lo, hi := 0, 0
	for _, v := range d.Tab {
		if v < -(1<<50) || v > 1<<50 {
			continue
		}
		if len(d.Probes) < 128 {
			d.Probes = append(d.Probes, v-1, v+1)
		}
		if v < lo {
			lo = v
		}
		if v > hi {
			hi = v
		}
	}
	d.Probes = append(d.Probes, lo-7, hi+7, -(1 << 60), 1<<60)
	d.fillShared()
	return d
}

func strDom(n int, cmpName string, off int) *Dom[string] {
	d := &Dom[string]{Elem: "string", CmpName: cmpName, Tab: strTab(n, off), Str: strconv.Quote}
	switch cmpName {
	case "", "nat":
		d.CmpName = "nat"
		d.Cmp = cmp.Compare[string]
		d.Class = strconv.Quote
		d.Ordered = true
	case "rev":
		d.Cmp = func(a, b string) int { return cmp.Compare(b, a) }
		d.Class = strconv.Quote
	case "natbig":
		d.Cmp = func(a, b string) int { return cmp.Compare(a, b) * natBig }
		d.Class = strconv.Quote
	case "diff": // byte difference at the first differing position, else length difference
		d.Cmp = strDiff
		d.Class = strconv.Quote
	case "ext":
		d.Cmp = func(a, b string) int { return extCmp(cmp.Compare(a, b)) }
		d.Class = strconv.Quote
	case "len":
		d.Cmp = func(a, b string) int { return cmp.Compare(len(a), len(b)) }
		d.Class = func(a string) string { return "c" + strconv.Itoa(len(a)) }
	case "fold":
		d.Cmp = func(a, b string) int { return cmp.Compare(strings.ToLower(a), strings.ToLower(b)) }
		d.Class = func(a string) string { return strconv.Quote(strings.ToLower(a)) }
	default:
		panic("unknown string comparator " + cmpName)
	}
	for i, v := range d.Tab {
		if i%2 == 0 && len(d.Probes) < 128 {
			d.Probes = append(d.Probes, v+"\x01")
		}
	}
	d.Probes = append(d.Probes, "\x00", "\U0010ffff\U0010ffff", strings.Repeat("q", 40))
	d.fillShared()
	return d
}

func itemDom(n int, cmpName string) *Dom[Item] {
	d := &Dom[Item]{Elem: "item", CmpName: cmpName, Tab: itemTab(n),
		Str: func(a Item) string { return fmt.Sprintf("{P:%d ID:%d}", a.P, a.ID) }}
	switch cmpName {
	case "", "nat":
		d.CmpName = "nat"
		d.Cmp = func(a, b Item) int { return cmp.Compare(a.P, b.P) }
	case "rev":
		d.Cmp = func(a, b Item) int { return cmp.Compare(b.P, a.P) }
	case "natbig":
		d.Cmp = func(a, b Item) int { return cmp.Compare(a.P, b.P) * natBig }
	case "diff":
		d.Cmp = func(a, b Item) int { return intDiff(a.P, b.P) * 40 }
	case "ext":
		d.Cmp = func(a, b Item) int { return extCmp(cmp.Compare(a.P, b.P)) }
	default:
		panic("unknown item comparator " + cmpName)
	}
	d.Class = func(a Item) string { return "c" + strconv.Itoa(a.P) }
	d.Probes = []Item{{P: -1000, ID: -1}, {P: 1000, ID: -2}}
	d.fillShared()
	return d
}

// intDiff is a-b saturated at +-200 and computed without overflow: a legal strict weak order whose
// results are not limited to -1/0/1 (and whose low byte may contradict its sign).
func intDiff(a, b int) int {
	switch {
	case a == b:
		return 0
	case a > b:
		if d := uint64(a) - uint64(b); d < 200 {
			return int(d)
		}
		return 200
	}
	if d := uint64(b) - uint64(a); d < 200 {
		return -int(d)
	}
	return -200
}

func strDiff(a, b string) int {
	for i := 0; i < len(a) && i < len(b); i++ {
		if a[i] != b[i] {
			return int(a[i]) - int(b[i])
		}
	}
	return len(a) - len(b)
}

// floatDom: float64 elements including NaN, the infinities and both zeros. Only used with the
// comparator-based containers (cmp.Compare orders NaN below everything and treats -0 and +0 as equal)
// and in the C15 world; NaN is not JSON-representable, so the persistence worlds never see it.
var specialFloats = []float64{math.NaN(), math.Inf(-1), math.Inf(1), 0, math.Copysign(0, -1), 1.5, -1.5, math.MaxFloat64, math.SmallestNonzeroFloat64, -math.MaxFloat64, 1e15 + 0.5}

func fstr(f float64) string {
	if f == 0 && math.Signbit(f) {
		return "-0"
	}
	return strconv.FormatFloat(f, 'g', -1, 64)
}

// floatTotal is a sign-aware total order (-0 before +0, NaN first): legal, and it disagrees with ==.
func floatTotal(a, b float64) int {
	if c := cmp.Compare(a, b); c != 0 {
		return c
	}
	return cmp.Compare(b2i(math.Signbit(b)), b2i(math.Signbit(a)))
}

func b2i(b bool) int {
	if b {
		return 1
	}
	return 0
}

func floatDom(n int, cmpName string, off int, noNaN bool) *Dom[float64] {
	d := &Dom[float64]{Elem: "float", CmpName: cmpName, Str: fstr}
	for i := 0; i < n; i++ {
		if i < n/2+1 && i < len(specialFloats) {
			v := specialFloats[(i+off)%len(specialFloats)]
			if noNaN && v != v {
				v = 3.25 // the families whose models compare elements with == do without NaN
			}
			d.Tab = append(d.Tab, v)
		} else {
			d.Tab = append(d.Tab, float64(i-n/2)*2.5)
		}
	}
	cls := func(f float64) string {
		if f == 0 {
			return "0" // -0 and +0 compare equal
		}
		return fstr(f)
	}
	switch cmpName {
	case "", "nat":
		d.CmpName = "nat"
		d.Cmp = cmp.Compare[float64]
		d.Ordered = true
	case "rev":
		d.Cmp = func(a, b float64) int { return cmp.Compare(b, a) }
	case "total":
		d.Cmp = floatTotal
		cls = fstr
	default:
		panic("unknown float comparator " + cmpName)
	}
	d.Class = cls
	d.Probes = []float64{-1e300, 1e300, 0.25, -0.25, math.NaN(), 7.75}
	if noNaN {
		d.Probes[4] = 9.125
	}
	d.fillShared()
	return d
}

// anyDom: elements of type `any` with mixed dynamic types that are all comparable and all distinct under
// == although several print alike (1, "1", int64(1), 1.0, uint8(1); two pointers to equal structs; nil).
// Only for the sequence containers (lists, stacks, queues), which identify elements by == and never hash or
// order them, and only in worlds that do not decode JSON into the element type.
var anyPtrs = []*Item{{P: 1, ID: 1}, {P: 1, ID: 1}, {P: 2, ID: 0}}

var anyPool = []any{1, "1", int64(1), 1.0, uint8(1), true, "true", nil, Item{P: 1, ID: 1}, anyPtrs[0], anyPtrs[1], [2]int{1, 2}, 'a', "a", struct{}{},
	int8(-1), -1, "", 0, false, uint(0), anyPtrs[2], Item{}, [2]int{}, "<nil>", int32(1), 97, "97", 1.5, "1.5", [1]string{"1"}, complex(1, 0)}

func anyStr(v any) string {
	if p, ok := v.(*Item); ok {
		for i, q := range anyPtrs {
			if p == q {
				return "ptr#" + strconv.Itoa(i)
			}
		}
		return "ptr#other"
	}
	return fmt.Sprintf("%T(%#v)", v, v)
}

func anyDom(n int, off int) *Dom[any] {
	d := &Dom[any]{Elem: "any", CmpName: "nat", Str: anyStr, Class: anyStr}
	for i := 0; i < n; i++ {
		if i < len(anyPool) {
			d.Tab = append(d.Tab, anyPool[(i+off)%len(anyPool)])
		} else {
			d.Tab = append(d.Tab, 1000+i)
		}
	}
	d.Cmp = func(a, b any) int { return strings.Compare(anyStr(a), anyStr(b)) }
	d.Probes = []any{int8(1), "absent", 2.5, [2]int{9, 9}, uint64(1), &Item{P: 1, ID: 1}}
	d.fillShared()
	return d
}

func anyOK(prop, kind string) bool {
	if prop != "C03" && prop != "C05" && prop != "C08" {
		return false
	}
	return familyOf(kind) == "list" || familyOf(kind) == "sq"
}

func useAny(cfg *Cfg) {
	cfg.Elem, cfg.Cmp, cfg.Ctor = "any", "nat", ""
	cfg.Dom = min(cfg.Dom, 64)
}

func cmpsFor(elem string) []string {
	switch elem {
	case "int":
		return intCmps
	case "string":
		return strCmps
	}
	return itemCmps
}

// joinS renders a slice with a per-element function.
func joinS[T any](xs []T, f func(T) string) string {
	var sb strings.Builder
	sb.WriteByte('[')
	for i, x := range xs {
		if i > 0 {
			sb.WriteByte(' ')
		}
		sb.WriteString(f(x))
	}
	sb.WriteByte(']')
	return sb.String()
}
