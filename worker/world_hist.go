package main

import (
	"math"
	"runtime"
	"slices"
	"strings"
)

// histWorld: the history worlds of the state-machine properties (C01-C07, C09, C10, C15).
// Several scripted clients are interleaved by the seeded scheduler into one history; the real
// container and the reference model execute it in lock-step and the property's oracles are
// evaluated after every step. No fault kind applies to these worlds (DESIGN.md section 2).

type histWorld struct {
	prop   string
	tags   []string
	kinds  []string
	count  bool // counting comparator (C07)
	bigN   bool // C07: large n
	loads  bool // C06: FromJSON(any array) is part of the history
	c15    bool // C15: Clear at a seeded point, lock-step differential against a fresh instance
	minOps int
}

func (w *histWorld) Gen(seed uint64, tier string) *Plan {
	r := NewRng(seed)
	if scaleKinds[w.prop] != nil && r.P(1, 800) {
		return genScale(r, w.prop)
	}
	cfg := genCfg(r, w.kinds, tier)
	nOps := []int{10, 20, 40, 40, 80, 120, 200, 400}[r.Intn(8)]
	if tier == "thorough" && r.P(1, 5) {
		nOps = []int{800, 1500, 3000}[r.Intn(3)]
	}
	if w.bigN {
		// C07: grow n; few full-domain probes are made in this world so long runs are affordable
		cfg.Dom = []int{16, 64, 64, 256, 256, 1024}[r.Intn(6)]
		if tier == "thorough" {
			cfg.Dom = []int{64, 256, 1024, 1024, 4096}[r.Intn(5)]
		}
		nOps = cfg.Dom * r.Range(2, 4)
		if kvIsBidi(cfg.Kind) && r.Bool() {
			cfg.VDom = min(cfg.Dom, 1024) // many distinct values: the inverse index grows with the map
		}
	}
	hugeFill := 0
	big := !w.bigN && !w.c15 && r.P(1, 40)
	if big {
		// large-size runs: hundreds to thousands of elements, state comparison every 16th step
		cfg.Mode = "big"
		cfg.Dom = []int{128, 256, 512, 1024}[r.Intn(4)]
		nOps = cfg.Dom * r.Range(2, 3)
		if tier != "thorough" {
			nOps = min(nOps, 1500)
		}
	}
	if !big && !w.bigN && !w.c15 && !w.count && (familyOf(cfg.Kind) == "list" || familyOf(cfg.Kind) == "set" || familyOf(cfg.Kind) == "sq") && cfg.Elem != "item" && r.P(1, 400) {
		// a huge run: tens of thousands of elements in one bulk step, then a short history compared sparsely
		big = true
		cfg.Mode = "big"
		cfg.Dom = 65536
		nOps = r.Range(100, 260)
		hugeFill = r.Range(20_000, 60_000)
	}
	if cfg.Kind == "circularbuffer" && !w.bigN && !w.count && hugeFill == 0 && r.P(1, 10) {
		// a large ring, filled to (about) its capacity in one step: the wrap-around arithmetic and whatever
		// depends on the capacity are then exercised where they differ from the tiny rings of the other runs
		cfg.Cap = []int{1024, 1500, 2048, 4096}[r.Intn(4)]
		cfg.Dom = 1024
		cfg.Mode = "big"
		big = true
		nOps = r.Range(60, 200)
		hugeFill = cfg.Cap + []int{0, 0, 0, -1, 1, 37}[r.Intn(6)]
	}
	if familyOf(cfg.Kind) == "heap" && cfg.Dom > 64 {
		cfg.Dom = 64
		if big {
			cfg.Dom = 256
			nOps = min(nOps, 700)
		}
	}
	if floatOK(w.prop, cfg.Kind) && !big && r.P(1, 8) {
		useFloat(r, &cfg)
		cfg.Dom = min(cfg.Dom, 64)
	} else if anyOK(w.prop, cfg.Kind) && !big && r.P(1, 10) {
		useAny(&cfg)
	}
	cfg.Strat = r.PickS("random", "burst", "roundrobin")
	if !big && !w.bigN && r.P(1, 4) {
		// unobserved stretches: the harness's own observers are reads, and a container that defers work to
		// the next read (a dirty flag, a lazily rebuilt index) never meets two mutations in a row otherwise
		cfg.Skip = []int{2, 3, 5, 9}[r.Intn(4)]
	}
	p := &Plan{World: "hist", Cfg: cfg}
	s := makeSubject(cfg, false)
	roles := []string{"mixed"}
	if rr, ok := s.(Roler); ok {
		roles = rr.Roles()
	}
	nClients := r.Range(1, 5)
	clients := make([]*Client, nClients)
	for i := range clients {
		clients[i] = &Client{Role: roles[r.Intn(len(roles))], Cursor: r.Intn(1000)}
		p.Clients = append(p.Clients, clients[i].Role)
	}
	if big {
		clients[0].Role = r.PickS("grower", "ascending", "producer", "pusher", "adder", "mixed")
		p.Clients[0] = clients[0].Role
	}
	if w.bigN {
		// the statement names sorted, reverse-sorted, zig-zag and churn orders in particular
		clients[0].Role = r.PickS("ascending", "descending", "zigzag", "sweep", "churn")
		clients[0].Cursor = 0
		p.Clients[0] = clients[0].Role
	}
	churnAt := -1
	if !w.count && !big && hugeFill == 0 && cfg.Elem != "float" && cfg.Elem != "any" && cfg.VCmp != "len" && cfg.VCmp != "fold" && r.P(1, 200) {
		// (not under a coarsened value comparator: the values written on the way would evict pairs by class)
		churnAt = r.Range(1, nOps-1)
		if familyOf(cfg.Kind) == "heap" || familyOf(cfg.Kind) == "sq" {
			nOps = min(nOps, 80) // (their models follow every pair: keep the container small)
		}
	}
	clearAt := -1
	if w.c15 {
		clearAt = r.Range(0, nOps-1)
	}
	ci, burst := 0, 0
	for id := 0; id < nOps; id++ {
		if id == 0 && hugeFill == 0 && !w.count && !w.c15 && (familyOf(cfg.Kind) == "list" || familyOf(cfg.Kind) == "set") && r.P(1, 6) {
			// the container starts from values passed to its constructor (none, a few, or more than a hundred)
			op := Op{ID: 0, N: "New", A: genIdxs(r, []int{0, 1, 3, 9, 70, 130}[r.Intn(6)], cfg.Dom)}
			s.ModelApply(op)
			p.Ops = append(p.Ops, op)
			continue
		}
		if id == 0 && hugeFill > 0 {
			op := Op{ID: 0, N: "Fill", A: []int{hugeFill, r.Intn(1000)}}
			s.ModelApply(op)
			p.Ops = append(p.Ops, op)
			continue
		}
		switch cfg.Strat {
		case "random":
			ci = r.Intn(nClients)
		case "burst":
			if burst == 0 {
				ci, burst = r.Intn(nClients), r.Range(1, 24)
			}
			burst--
		default:
			ci = id % nClients
		}
		var op Op
		switch {
		case id == churnAt:
			// a long run of operations that cancel out: only what a container counts over its lifetime grows (past
			// 4096, past 65 536)
			op = Op{ID: id, N: "Churn", A: []int{[]int{4200, 9000, 32768, 65536, 70000}[r.Intn(5)], r.Intn(1000)}}
		case id == clearAt:
			op = Op{ID: id, N: "Clear"}
		case w.loads && r.P(1, 12):
			op = genArrayLoad(r, id, s)
		case !w.count && (cfg.Skip > 1 && r.P(1, 8) || r.P(1, 30)):
			// a read-only call as part of the history (result not judged here: C18 judges results). Its purpose
			// is what it may leave behind - a position hint, a memo - for the mutations that follow
			op = s.GenRead(r, id)
			op.N = "R:" + op.N
		case id > 0 && !w.count && r.P(1, 16) && !strings.HasPrefix(p.Ops[id-1].N, "R:") && p.Ops[id-1].N != "Fill" && p.Ops[id-1].N != "FromJSON":
			// the same call twice in a row (the second one usually has nothing left to do)
			op = p.Ops[id-1]
			op.ID = id
			op.A = slices.Clone(op.A)
		default:
			op = s.GenOp(r, id, clients[ci])
		}
		op.C = ci
		if !strings.HasPrefix(op.N, "R:") {
			s.ModelApply(op)
		}
		p.Ops = append(p.Ops, op)
	}
	if w.c15 {
		p.Cfg.Mode = "clear-vs-fresh"
	}
	return p
}

// genArrayLoad produces a FromJSON op for the C06 world: a JSON array of elements of the run's
// domain in arbitrary (non-heap) order, sometimes with ties and duplicates.
func genArrayLoad(r *Rng, id int, s Subject) Op {
	n := []int{0, 1, 2, 3, 5, 8, 13, 15, 21, 31}[r.Intn(10)]
	idx := genIdxs(r, n, s.Config().Dom)
	// the arrangement of the document: arbitrary, sorted either way, or sorted with one or two pairs swapped
	// (nearly ordered inputs are what a "skip the work if already ordered" shortcut gets wrong)
	if shape := r.Intn(5); shape > 0 {
		s.(interface{ sortIdx([]int) }).sortIdx(idx)
		if shape == 2 {
			slices.Reverse(idx)
		}
		for k := 0; shape >= 3 && k < shape-2 && n >= 2; k++ {
			i, j := r.Intn(n), r.Intn(n)
			idx[i], idx[j] = idx[j], idx[i]
		}
	}
	var doc []byte
	switch x := s.(type) {
	case *heapSubj[int]:
		doc = mustJSON(x.vals(idx))
	case *heapSubj[string]:
		doc = mustJSON(x.vals(idx))
	case *heapSubj[Item]:
		doc = mustJSON(x.vals(idx))
	case *heapSubj[float64]:
		fs := x.vals(idx)
		for i, f := range fs {
			if math.IsInf(f, 0) || f != f {
				fs[i] = 0.5 // not JSON-representable
			}
		}
		doc = mustJSON(fs)
	default:
		panic("genArrayLoad: not a heap")
	}
	if n == 0 && r.Bool() {
		doc = []byte("null")
	}
	return Op{ID: id, N: "FromJSON", B: doc, T: string(doc)}
}

func (w *histWorld) Exec(p *Plan, st *RunStats) *Violation {
	if p.World == "scale" {
		return execScale(p, st, w.prop)
	}
	attach(p)
	if p.Cfg.Dom > 4096 {
		// huge runs: one step (operation + state comparison over tens of thousands of elements)
		// legitimately passes far more yield sites than the bound that fits the ordinary sizes
		saveLimit := stepLimit
		stepLimit = 100 * saveLimit
		defer func() { stepLimit, opSteps = saveLimit, 0 }()
	}
	start := stepCount
	s := makeSubject(p.Cfg, w.count)
	o := NewOracle(w.prop, w.tags...)
	var fresh Subject
	var fo *Oracle
	removals, maxSize, clears, afterClear := 0, 0, 0, 0
	opNames := map[string]bool{}
	// a bystander: a second container of the same kind that the history never touches must stay as it is
	// (package-level state shared between instances)
	var by Subject
	byObs := ""
	if !w.count && p.Cfg.Dom <= 4096 && p.Cfg.MapSeed%3 == 0 {
		by = s.Fresh()
		if usesCmp(p.Cfg.Kind) && familyOf(p.Cfg.Kind) != "list" && p.Cfg.MapSeed%2 == 0 {
			// ... ordered by another comparator than the container under test
			cb := p.Cfg
			cb.Ctor = ""
			if cb.Cmp == "rev" {
				cb.Cmp = "nat"
			} else {
				cb.Cmp = "rev"
			}
			if cb.Kind == "treebidimap" {
				if cb.VCmp == "rev" {
					cb.VCmp = "nat"
				} else {
					cb.VCmp = "rev"
				}
			}
			by = makeSubject(cb, false)
		}
		inert := NewOracle(w.prop)
		br := NewRng(p.Cfg.MapSeed ^ 0x5eed)
		bc := &Client{Role: "mixed"}
		for i := 0; i < 10; i++ {
			bop := by.GenOp(br, 900000+i, bc)
			if bop.N == "Clear" {
				continue
			}
			safely(inert, bop, func() { inert.V = nil; by.Step(bop, inert) })
		}
		safely(o, Op{ID: -2, N: "ObserveBystander"}, func() { byObs = by.ObsJSON() })
		if p.Cfg.MapSeed%4 == 0 {
			// two collections empty every sync.Pool: whatever the package pools is from here on created by
			// the container under test, at a point fixed by the plan (not by the collector's own timing)
			runtime.GC()
			runtime.GC()
		}
	}
	skipped := false
	for _, op := range p.Ops {
		before := s.ModelSize()
		op := op
		skipped = p.Cfg.Skip > 1 && derive(op.ID, 77, p.Cfg.Skip) != 0
		o.Sparse = p.Cfg.Mode == "big" && op.ID%16 != 0 || skipped
		if strings.HasPrefix(op.N, "R:") {
			rop := op
			rop.N = op.N[2:]
			safely(o, op, func() { o.cur = op; s.DoRead(rop) })
			if fresh != nil && !o.Failed() {
				safely(o, op, func() { fresh.DoRead(rop) })
			}
			st.Ops++
			if o.Failed() {
				break
			}
			continue
		}
		safely(o, op, func() { s.Step(op, o) })
		st.Ops++
		if traceOn {
			trace("op %d %s -> %016x", op.ID, op.N, hashStr(s.Obs()))
		}
		if o.Failed() {
			break
		}
		opNames[op.N] = true
		if s.ModelSize() < before {
			removals++
		}
		maxSize = max(maxSize, s.ModelSize())
		if w.c15 {
			if fresh != nil {
				afterClear++
				fo.Sparse = skipped
				safely(fo, op, func() { fresh.Step(op, fo) })
				if fo.Failed() {
					o.V = fo.V
					o.V.Msg = "on a freshly constructed instance: " + o.V.Msg
					break
				}
				if skipped {
					continue
				}
				safely(o, op, func() {
					if a, b := s.ObsJSON(), fresh.ObsJSON(); a != b {
						o.Fail("C15", "cleared-vs-fresh", "after Clear and the continuation up to %s the cleared container and a freshly constructed one differ:\n cleared: %s\n fresh:   %s", op, a, b)
					}
				})
				if o.Failed() {
					break
				}
			}
			if op.N == "Clear" && fresh == nil && p.Cfg.Mode == "clear-vs-fresh" {
				clears++
				fresh = s.Fresh()
				fo = NewOracle(w.prop, w.tags...)
				safely(o, op, func() {
					if a, b := s.ObsJSON(), fresh.ObsJSON(); a != b {
						o.cur = op
						o.Fail("C15", "cleared-vs-fresh", "right after Clear the container differs from a freshly constructed one:\n cleared: %s\n fresh:   %s", a, b)
					}
				})
				if o.Failed() {
					break
				}
			}
		}
		if (w.prop == "C09" || w.prop == "C02") && !skipped && p.Cfg.Mode != "big" && derive(op.ID, 61, 4) == 0 {
			// the statement names the iterator: it walks the very sequence Keys()/Values() list, in both directions
			safely(o, op, func() {
				if bad := walkBothWays(s); bad != "" {
					o.Fail(w.prop, "iterator-order", "after %s: %s", op, bad)
				}
			})
			if o.Failed() {
				break
			}
		}
		if st.Ops%8 == 0 && len(st.States) < 64 && !w.bigN {
			st.States = append(st.States, hashStr(p.Cfg.Kind+s.ModelObs()))
		}
	}
	if !o.Failed() && (p.Cfg.Mode == "big" || p.Cfg.Skip > 1) {
		if h, ok := s.(interface{ CheckNow(*Oracle) }); ok {
			safely(o, Op{ID: -1, N: "FinalCheck"}, func() { o.cur = Op{ID: -1, N: "FinalCheck"}; h.CheckNow(o) })
		}
		if fresh != nil && !o.Failed() {
			safely(o, Op{ID: -1, N: "FinalCheck"}, func() {
				if a, b := s.ObsJSON(), fresh.ObsJSON(); a != b {
					o.cur = Op{ID: -1, N: "FinalCheck"}
					o.Fail("C15", "cleared-vs-fresh", "at the end of the run the cleared container and a freshly constructed one differ:\n cleared: %s\n fresh:   %s", a, b)
				}
			})
		}
	}
	if by != nil && !o.Failed() {
		safely(o, Op{ID: -1, N: "FinalCheck"}, func() {
			if now := by.ObsJSON(); now != byObs {
				o.cur = Op{ID: -1, N: "FinalCheck"}
				o.Fail(w.prop, "bystander-changed", "a second %s that the history never touched changed while the first was operated on:\n before %s\n after  %s", p.Cfg.Kind, byObs, now)
			}
		})
	}
	if !o.Failed() {
		if h, ok := s.(interface{ FinalCheck(*Oracle) }); ok {
			safely(o, Op{ID: -1, N: "FinalCheck"}, func() { h.FinalCheck(o) })
		}
	}
	if !o.Failed() && p.Cfg.Ctor == "default" && !w.count && o.Active[w.prop] {
		// the default constructor is generic over every ordered type: other instantiations of the same kind
		probe := Op{ID: -1, N: "NewOverOtherOrderedTypes"}
		safely(o, probe, func() { o.cur = probe; typedCtorProbe(o, w.prop, p.Cfg.Kind, int(p.Cfg.MapSeed>>33)) })
	}
	if !o.Failed() && !w.count && usesCmp(p.Cfg.Kind) && o.Active[w.prop] && p.Cfg.MapSeed%5 == 1 && (w.prop == "C01" || w.prop == "C02" || w.prop == "C04" || w.prop == "C10") {
		// the library's own comparator (utils.TimeComparator) with the kind under test
		probe := Op{ID: -1, N: "TimeKeysWithTheLibraryComparator"}
		safely(o, probe, func() { o.cur = probe; timeKeysProbe(o, w.prop, p.Cfg.Kind, int(p.Cfg.MapSeed>>35)) })
	}
	if !o.Failed() && o.Active[w.prop] && p.Cfg.MapSeed%7 == 3 && (w.prop == "C03" || w.prop == "C04" || w.prop == "C05") {
		probe := Op{ID: -1, N: "ZeroSizeElements"}
		safely(o, probe, func() { o.cur = probe; zeroSizeProbe(o, w.prop, p.Cfg.Kind) })
	}
	if !o.Failed() && !w.count && usesCmp(p.Cfg.Kind) && familyOf(p.Cfg.Kind) != "list" && o.Active[w.prop] && p.Cfg.MapSeed%5 == 2 {
		// pointer elements ordered by a field of the pointee (library panics are violations; a nil handed to the comparator is counted)
		probe := Op{ID: -1, N: "PointerElementsWithDereferencingComparator"}
		safely(o, probe, func() { o.cur = probe; pointerElementsProbe(o, w.prop, p.Cfg.Kind, int(p.Cfg.MapSeed>>36)) })
	}
	if !o.Failed() {
		if h, ok := s.(interface{ FinalDrain(*Oracle) }); ok && o.Active["C06"] {
			safely(o, Op{ID: -1, N: "Drain"}, func() { h.FinalDrain(o) })
		}
	}
	st.Steps = stepCount - start
	st.Unjudged = o.Unj
	st.MaxSize = maxSize
	st.NonTrivial = len(p.Ops) >= w.minOps && removals >= 1 && maxSize >= 3
	if w.c15 {
		st.NonTrivial = clears >= 1 && afterClear >= 3
	}
	return o.V
}
