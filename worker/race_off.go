//go:build !race

package main

const raceEnabled = false

func raceDisable()    {}
func raceEnable()     {}
func raceErrors() int { return 0 }
