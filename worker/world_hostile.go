package main

import (
	"fmt"
	"os"
)

// C17: every operation returns normally and silently for every argument. The hostile world drives
// every exported operation of every container and iterator with unconstrained arguments and feeds
// FromJSON with faulted and random bytes. Monitors: recover around every operation (panic),
// termination in simulated time (yield sites passed by one operation), and the size of the files
// that file descriptors 1 and 2 were redirected to (checked after every operation).

// safeEncodeModel is EncodeModel for worlds whose element tables may hold values that JSON cannot
// represent (NaN, Inf): those yield a fixed document instead.
func safeEncodeModel(s Subject) (b []byte) {
	defer func() {
		if recover() != nil {
			b = []byte("[1.5,-0,2e308]")
		}
	}()
	return s.EncodeModel()
}

type hostileWorld struct{}

var capOut, capErr *os.File // fds 1 and 2 are redirected here in the C17 worker (proc.go)
var seenOut, seenErr int64

func outputGrowth() (string, string) {
	read := func(f *os.File, seen *int64) string {
		if f == nil {
			return ""
		}
		st, err := f.Stat()
		if err != nil || st.Size() <= *seen {
			return ""
		}
		n := st.Size() - *seen
		if n > 300 {
			n = 300
		}
		buf := make([]byte, n)
		f.ReadAt(buf, *seen)
		*seen = st.Size()
		return string(buf)
	}
	return read(capOut, &seenOut), read(capErr, &seenErr)
}

func (w *hostileWorld) Gen(seed uint64, tier string) *Plan {
	r := NewRng(seed)
	cfg := genCfg(r, allKinds, tier)
	if cfg.Dom > 64 {
		cfg.Dom = 64
	}
	if floatOK("C17", cfg.Kind) && r.P(1, 10) {
		useFloat(r, &cfg) // NaN, +-Inf and both zeros as keys of the comparator-based containers
	}
	p := &Plan{World: "hostile", Cfg: cfg}
	s := makeSubject(cfg, false)
	roles := s.(Roler).Roles()
	c := &Client{Role: roles[r.Intn(len(roles))]}
	p.Clients = []string{"hostile-caller", "snapshot-store"}
	n := []int{5, 10, 20, 40, 80, 160}[r.Intn(6)]
	if tier == "thorough" && r.P(1, 4) {
		n = []int{400, 1000}[r.Intn(2)]
	}
	first := 0
	if r.P(1, 25) {
		op := genFill(r, 0, 100, 1500)
		op.X = 9
		s.ModelApply(op)
		p.Ops = append(p.Ops, op)
		first = 1
	}
	for id := first; id < n; id++ {
		if r.P(1, 60) {
			p.Ops = append(p.Ops, Op{ID: id, N: "NestedContainers", A: []int{r.Intn(100)}})
			continue
		}
		switch r.Weighted(30, 6, 3, 1) {
		case 0:
			p.Ops = append(p.Ops, s.GenHostile(r, id))
		case 1: // ordinary mutation (keeps the containers populated)
			op := s.GenOp(r, id, c)
			s.ModelApply(op)
			op.X = 9
			p.Ops = append(p.Ops, op)
		case 2: // hostile bytes
			var b []byte
			switch r.Intn(4) {
			case 0:
				b = []byte(wrongKindDocs[r.Intn(len(wrongKindDocs))])
			case 1:
				for i := r.Intn(24); i > 0; i-- {
					b = append(b, byte(r.Intn(256)))
				}
			default:
				b = safeEncodeModel(s)
				for nf := r.Range(0, 3); nf > 0; nf-- {
					if r.Bool() {
						b = applyByteFault(r, byteFaults[r.Intn(len(byteFaults))], b)
					} else {
						b = applyDocFault(r, docFaults[r.Intn(len(docFaults))], b, cfg.Elem, cfg.Cap)
					}
				}
			}
			p.Ops = append(p.Ops, Op{ID: id, N: "Load", A: []int{r.Intn(3)}, B: b, T: string(b)})
			p.Faults = append(p.Faults, Fault{Kind: "hostile-bytes", At: id})
		default:
			p.Ops = append(p.Ops, Op{ID: id, N: "Fresh"}) // start over with a newly constructed container
		}
	}
	return p
}

func (w *hostileWorld) Exec(p *Plan, st *RunStats) *Violation {
	attach(p)
	start := stepCount
	s := makeSubject(p.Cfg, false)
	o := NewOracle("C17", "C17")
	o.Kind = p.Cfg.Kind
	inert := NewOracle("C17") // model comparisons are not this world's business
	outputGrowth()
	hostileArgs := 0
	for _, op := range p.Ops {
		op := op
		st.Ops++
		safely(o, op, func() {
			switch {
			case op.N == "Load":
				st.Fault("hostile-bytes")
				hostileArgs++
				loadVariant(s, op.A[0], op.B)
			case op.N == "Fresh":
				s = s.Fresh()
			case op.N == "NestedContainers":
				nestedProbe(o, op.A[0])
				for _, k := range []string{"treeset", "treemap", "redblacktree", "avltree", "btree", "treebidimap", "binaryheap", "priorityqueue"} {
					o.cur = op
					pointerElementsProbe(o, "C17", k, op.A[0]+len(k))
				}
				for _, k := range append(append(append([]string(nil), listKinds...), sqKinds...), "hashset", "linkedhashset") {
					zeroSizeProbe(o, "C17", k)
				}
				o.Kind = p.Cfg.Kind
			case op.X == 9:
				inert.V = nil
				s.Step(op, inert)
			default:
				for _, a := range op.A {
					if a < -1 || a > 1<<16 {
						hostileArgs++
						break
					}
				}
				s.DoHostile(op)
			}
		})
		if so, se := outputGrowth(); so != "" || se != "" {
			o.cur = op
			if so != "" {
				o.Fail("C17", "wrote-stdout", "%s wrote to standard output: %q", op, so)
			} else {
				o.Fail("C17", "wrote-stderr", "%s wrote to standard error: %q", op, se)
			}
		}
		if traceOn {
			trace("op %d %s -> %016x", op.ID, op.N, hashStr(s.Obs()))
		}
		if o.Failed() {
			break
		}
	}
	st.Steps = stepCount - start
	st.NonTrivial = hostileArgs >= 1
	_ = fmt.Sprint
	return o.V
}
