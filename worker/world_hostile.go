package main

import (
	"cmp"
	"fmt"
	"math"
	"os"
	"sync/atomic"

	"github.com/emirpasic/gods/v2/lists/arraylist"
	"github.com/emirpasic/gods/v2/queues/priorityqueue"
	"github.com/emirpasic/gods/v2/trees/binaryheap"
	"github.com/emirpasic/gods/v2/trees/btree"
)

// C17: every operation returns normally and silently for every argument. The hostile world drives
// every exported operation of every container and iterator with unconstrained arguments and feeds
// FromJSON with faulted and random bytes. Monitors: recover around every operation (panic),
// termination in simulated time (yield sites passed by one operation), and the size of the files
// that file descriptors 1 and 2 were redirected to (checked after every operation).

// safeEncodeModel is EncodeModel for worlds whose element tables may hold values that JSON cannot
// represent (NaN, Inf): those yield a fixed document instead.
func safeEncodeModel(s Subject) (b []byte) {
	defer func() {
		if recover() != nil {
			b = []byte("[1.5,-0,2e308]")
		}
	}()
	return s.EncodeModel()
}

type hostileWorld struct{}

var capOut, capErr *os.File // fds 1 and 2 are redirected here in the C17 worker (proc.go)
var seenOut, seenErr int64

func outputGrowth() (string, string) {
	read := func(f *os.File, seen *int64) string {
		if f == nil {
			return ""
		}
		st, err := f.Stat()
		if err != nil || st.Size() <= *seen {
			return ""
		}
		n := st.Size() - *seen
		if n > 300 {
			n = 300
		}
		buf := make([]byte, n)
		f.ReadAt(buf, *seen)
		*seen = st.Size()
		return string(buf)
	}
	return read(capOut, &seenOut), read(capErr, &seenErr)
}

func (w *hostileWorld) Gen(seed uint64, tier string) *Plan {
	r := NewRng(seed)
	cfg := genCfg(r, allKinds, tier)
	if cfg.Dom > 64 {
		cfg.Dom = 64
	}
	if floatOK("C17", cfg.Kind) && r.P(1, 10) {
		useFloat(r, &cfg) // NaN, +-Inf and both zeros as keys of the comparator-based containers
	}
	p := &Plan{World: "hostile", Cfg: cfg}
	s := makeSubject(cfg, false)
	roles := s.(Roler).Roles()
	c := &Client{Role: roles[r.Intn(len(roles))]}
	p.Clients = []string{"hostile-caller", "snapshot-store"}
	n := []int{5, 10, 20, 40, 80, 160}[r.Intn(6)]
	if tier == "thorough" && r.P(1, 4) {
		n = []int{400, 1000}[r.Intn(2)]
	}
	first := 0
	if r.P(1, 25) {
		op := genFill(r, 0, 100, 1500)
		op.X = 9
		s.ModelApply(op)
		p.Ops = append(p.Ops, op)
		first = 1
	}
	for id := first; id < n; id++ {
		if r.P(1, 60) {
			p.Ops = append(p.Ops, Op{ID: id, N: "NestedContainers", A: []int{r.Intn(100)}})
			continue
		}
		if r.P(1, 2500) {
			p.Ops = append(p.Ops, Op{ID: id, N: "ExtremeConfig", A: []int{r.Intn(1000)}})
			continue
		}
		if r.P(1, 40000) {
			p.Ops = append(p.Ops, Op{ID: id, N: "HugeAdd", A: []int{r.Intn(1000)}})
			continue
		}
		switch r.Weighted(30, 6, 3, 1) {
		case 0:
			p.Ops = append(p.Ops, s.GenHostile(r, id))
		case 1: // ordinary mutation (keeps the containers populated)
			op := s.GenOp(r, id, c)
			s.ModelApply(op)
			op.X = 9
			p.Ops = append(p.Ops, op)
		case 2: // hostile bytes
			var b []byte
			switch r.Intn(4) {
			case 0:
				b = []byte(wrongKindDocs[r.Intn(len(wrongKindDocs))])
			case 1:
				for i := r.Intn(24); i > 0; i-- {
					b = append(b, byte(r.Intn(256)))
				}
			default:
				b = safeEncodeModel(s)
				for nf := r.Range(0, 3); nf > 0; nf-- {
					if r.Bool() {
						b = applyByteFault(r, byteFaults[r.Intn(len(byteFaults))], b)
					} else {
						b = applyDocFault(r, docFaults[r.Intn(len(docFaults))], b, cfg.Elem, cfg.Cap)
					}
				}
			}
			p.Ops = append(p.Ops, Op{ID: id, N: "Load", A: []int{r.Intn(3)}, B: b, T: string(b)})
			p.Faults = append(p.Faults, Fault{Kind: "hostile-bytes", At: id})
		default:
			p.Ops = append(p.Ops, Op{ID: id, N: "Fresh"}) // start over with a newly constructed container
		}
	}
	return p
}

func (w *hostileWorld) Exec(p *Plan, st *RunStats) *Violation {
	attach(p)
	start := stepCount
	s := makeSubject(p.Cfg, false)
	o := NewOracle("C17", "C17")
	o.Kind = p.Cfg.Kind
	inert := NewOracle("C17") // model comparisons are not this world's business
	outputGrowth()
	hostileArgs := 0
	for _, op := range p.Ops {
		op := op
		st.Ops++
		safely(o, op, func() {
			switch {
			case op.N == "Load":
				st.Fault("hostile-bytes")
				hostileArgs++
				loadVariant(s, op.A[0], op.B)
			case op.N == "Fresh":
				s = s.Fresh()
			case op.N == "HugeAdd":
				o.cur = op
				hugeAddProbe(o, op.A[0])
				o.Kind = p.Cfg.Kind
			case op.N == "ExtremeConfig":
				o.cur = op
				extremeConfigProbe(o, op.A[0])
				o.Kind = p.Cfg.Kind
			case op.N == "NestedContainers":
				nestedProbe(o, op.A[0])
				for _, k := range []string{"treeset", "treemap", "redblacktree", "avltree", "btree", "treebidimap", "binaryheap", "priorityqueue"} {
					o.cur = op
					pointerElementsProbe(o, "C17", k, op.A[0]+len(k))
				}
				for _, k := range append(append(append([]string(nil), listKinds...), sqKinds...), "hashset", "linkedhashset") {
					zeroSizeProbe(o, "C17", k)
				}
				o.Kind = p.Cfg.Kind
			case op.X == 9:
				inert.V = nil
				s.Step(op, inert)
			default:
				for _, a := range op.A {
					if a < -1 || a > 1<<16 {
						hostileArgs++
						break
					}
				}
				s.DoHostile(op)
			}
		})
		if so, se := outputGrowth(); so != "" || se != "" {
			o.cur = op
			if so != "" {
				o.Fail("C17", "wrote-stdout", "%s wrote to standard output: %q", op, so)
			} else {
				o.Fail("C17", "wrote-stderr", "%s wrote to standard error: %q", op, se)
			}
		}
		if traceOn {
			trace("op %d %s -> %016x", op.ID, op.N, hashStr(s.Obs()))
		}
		if o.Failed() {
			break
		}
	}
	st.Steps = stepCount - start
	st.NonTrivial = hostileArgs >= 1
	_ = fmt.Sprint
	return o.V
}

// extremeConfigProbe (C17): configurations at the far end of what the constructors document as legal, and sizes
// beyond what the model-compared worlds afford. (a) B-trees of order 2^62, MaxInt-1 and MaxInt (orders for which an allocation proportional to the order is refused
// with a panic rather than attempted) hold a handful of keys like
// any other. (b) A heap / priority queue takes one bulk Push and one FromJSON of about 9000 elements under a comparator
// that is not re-entrant - it notes when it is entered while another call of it is still running. The library is
// single-goroutine ("not thread safe"), so a caller's comparator never needs to be: a library that enters it from two
// goroutines at once does not return normally for such comparators (a memo map in it would abort the process).
func extremeConfigProbe(o *Oracle, salt int) {
	for _, order := range []int{1 << 62, math.MaxInt - 1, math.MaxInt} {
		o.Kind = "btree"
		t := btree.NewWith[int, string](order, func(a, b int) int { return cmp.Compare(a, b) })
		n := 3 + derive(salt, 1, 40)
		for i := 0; i < n; i++ {
			t.Put(derive(salt, 10+i, 50), "v")
		}
		t.Get(derive(salt, 2, 50))
		t.Keys()
		t.Values()
		t.Height()
		_ = t.String()
		t.ToJSON()
		for it := t.Iterator(); it.Next(); {
			it.Key()
		}
		for i := 0; i < n; i++ {
			t.Remove(derive(salt, 100+i, 50))
		}
		t.Put(1, "x")
		t.Clear()
		t.Put(2, "y")
		if t.Size() != 1 {
			o.Fail("C17", "extreme-order", "a B-tree of order %d holds %d keys after Clear and one Put", order, t.Size())
			return
		}
	}
	var inFlight, overlaps atomic.Int32
	cmpNR := func(a, b int) int {
		if inFlight.Add(1) > 1 {
			overlaps.Add(1)
		}
		c := cmp.Compare(a, b)
		inFlight.Add(-1)
		return c
	}
	n := 8800 + derive(salt, 3, 900)
	vals := make([]int, n)
	for i := range vals {
		vals[i] = int(mix(uint64(salt), uint64(i)) % 100000)
	}
	doc := mustJSON(vals)
	for _, kind := range []string{"binaryheap", "priorityqueue"} {
		o.Kind = kind
		var push func(...int)
		var pop func() (int, bool)
		var load func([]byte) error
		if kind == "binaryheap" {
			h := binaryheap.NewWith[int](cmpNR)
			push, pop, load = h.Push, h.Pop, h.FromJSON
		} else {
			q := priorityqueue.NewWith[int](cmpNR)
			push = func(vs ...int) {
				for _, v := range vs[:64] {
					q.Enqueue(v)
				}
			}
			pop, load = q.Dequeue, q.FromJSON
		}
		push(vals...)
		prev, _ := pop()
		for i := 0; i < 20; i++ {
			v, ok := pop()
			if !ok || v < prev {
				o.Fail("C17", "big-heap", "%s of %d elements after one bulk Push: Pop returned (%d,%v) after %d", kind, n, v, ok, prev)
				return
			}
			prev = v
		}
		load(doc)
		prev, _ = pop()
		for i := 0; i < 20; i++ {
			v, ok := pop()
			if !ok || v < prev {
				o.Fail("C17", "big-heap", "%s after loading a document of %d elements: Pop returned (%d,%v) after %d", kind, n, v, ok, prev)
				return
			}
			prev = v
		}
		if k := overlaps.Load(); k > 0 {
			o.Fail("C17", "comparator-entered-concurrently", "%s with %d elements: the caller's comparator was entered %d times while another call of it was still running - the library calls it from several goroutines, and a comparator that is not re-entrant (nothing says it must be) makes the operation crash or answer wrongly", kind, n, k)
			return
		}
	}
}

// hugeAddProbe (C17): one variadic call with more than 2^24 values (beyond the integers a float32 represents
// exactly: growth arithmetic done in float32 goes wrong there and nowhere below). Elements of one byte and of no
// bytes keep it cheap.
func hugeAddProbe(o *Oracle, salt int) {
	n := 1<<24 + 1 + 2*(salt%3)
	o.Kind = "arraylist"
	l := arraylist.New[int8](1, 2, 3)
	opSteps = 0
	l.Add(make([]int8, n)...)
	opSteps = 0
	if v, ok := l.Get(n + 2); l.Size() != n+3 || !ok || v != 0 {
		o.Fail("C17", "huge-add", "an ArrayList[int8] of 3 elements after Add of %d values: Size()=%d, Get(%d)=(%d,%v)", n, l.Size(), n+2, v, ok)
		return
	}
	z := arraylist.New[struct{}]()
	z.Add(make([]struct{}, n)...)
	opSteps = 0
	if z.Size() != n {
		o.Fail("C17", "huge-add", "an ArrayList[struct{}] after Add of %d values: Size()=%d", n, z.Size())
	}
}
