package main

import (
	"fmt"
	"slices"
	"sort"
	"strconv"
	"strings"

	"github.com/emirpasic/gods/v2/containers"
	"github.com/emirpasic/gods/v2/sets"
	"github.com/emirpasic/gods/v2/sets/hashset"
	"github.com/emirpasic/gods/v2/sets/linkedhashset"
	"github.com/emirpasic/gods/v2/sets/treeset"
)

var setKinds = []string{"hashset", "treeset", "linkedhashset"}
var setNames = map[string]string{"hashset": "HashSet", "treeset": "TreeSet", "linkedhashset": "LinkedHashSet"}

type setSubj[T comparable] struct {
	cfg      Cfg
	d        *Dom[T]
	s        sets.Set[T]
	m        []T // members in insertion order
	scribble bool
	lastArgs  []T
	argDamage string
	calls    *int64
	cmp      func(a, b T) int
	loadD    []T
	memo     map[T]string // class strings (the model compares classes a lot)
}

func newSetSubj[T comparable](cfg Cfg, d *Dom[T], count bool) *setSubj[T] {
	s := &setSubj[T]{cfg: cfg, d: d, cmp: d.Cmp}
	if count {
		s.calls = new(int64)
		s.cmp = func(a, b T) int { *s.calls++; return d.Cmp(a, b) }
	}
	s.s = s.make()
	return s
}

func (s *setSubj[T]) make(vs ...T) sets.Set[T] {
	if s.cfg.Ctor == "default" && s.cfg.Kind == "treeset" && s.calls == nil {
		var c any
		switch v := any(vs).(type) {
		case []int:
			c = treeset.New[int](v...)
		case []string:
			c = treeset.New[string](v...)
		case []float64:
			c = treeset.New[float64](v...)
		}
		if m, ok := c.(sets.Set[T]); ok && m != nil {
			return m
		}
	}
	switch s.cfg.Kind {
	case "hashset":
		return hashset.New[T](vs...)
	case "treeset":
		return treeset.NewWith[T](s.cmp, vs...)
	case "linkedhashset":
		return linkedhashset.New[T](vs...)
	}
	panic("unknown set kind " + s.cfg.Kind)
}

func (s *setSubj[T]) SetScribble(b bool) { s.scribble = b }
func (s *setSubj[T]) Kind() string       { return s.cfg.Kind }
func (s *setSubj[T]) Family() string     { return "set" }
func (s *setSubj[T]) Config() Cfg        { return s.cfg }
func (s *setSubj[T]) Real() any          { return s.s }
func (s *setSubj[T]) IO() jsonIO         { return s.s.(jsonIO) }
func (s *setSubj[T]) ModelSize() int     { return len(s.m) }
func (s *setSubj[T]) Drain() string      { return "" }
func (s *setSubj[T]) Fresh() Subject {
	n := newSetSubj(s.cfg, s.d, s.calls != nil)
	n.scribble = s.scribble
	return n
}

func (s *setSubj[T]) class(x T) string {
	if s.cfg.Elem == "float" { // == conflates -0 and +0 and never finds NaN: no memo
		if s.cfg.Kind == "treeset" || s.cfg.NoNaN {
			return s.d.Class(x) // (without NaN the natural order's classes are exactly =='s: -0 and +0 are one member)
		}
		return s.d.Str(x)
	}
	if c, ok := s.memo[x]; ok {
		return c
	}
	var c string
	if s.cfg.Kind == "treeset" {
		c = s.d.Class(x)
	} else {
		c = s.d.Str(x)
	}
	if s.memo == nil {
		s.memo = map[T]string{}
	}
	s.memo[x] = c
	return c
}

func (s *setSubj[T]) find(x T) int {
	c := s.class(x)
	for i, y := range s.m {
		if s.class(y) == c {
			return i
		}
	}
	return -1
}

func (s *setSubj[T]) vals(idx []int) []T {
	out := make([]T, len(idx), len(idx)+3)
	for i, k := range idx {
		if k < 0 {
			out[i] = s.d.Probes[(-k-1)%len(s.d.Probes)]
		} else {
			out[i] = s.d.At(k)
		}
	}
	if s.scribble {
		s.lastArgs = slices.Clone(out)
	}
	return out
}

func (s *setSubj[T]) ArgDamage() string { d := s.argDamage; s.argDamage = ""; return d }

func (s *setSubj[T]) afterCall(vs []T) {
	if !s.scribble {
		return
	}
	if dmg := argDamage(vs, s.lastArgs, s.d.Str); dmg != "" && s.argDamage == "" {
		s.argDamage = dmg
	}
	for i := range vs {
		vs[i] = s.d.Probes[0]
	}
	vs = append(vs, s.d.Probes[0])
	_ = vs
}

var setRoles = []string{"mixed", "adder", "remover", "dupes", "clearer"}

func (s *setSubj[T]) Roles() []string { return setRoles }

func (s *setSubj[T]) GenOp(r *Rng, id int, c *Client) Op {
	dom := len(s.d.Tab)
	args := func() []int {
		n := genCount(r)
		a := genIdxs(r, n, dom)
		if n >= 2 && (c.Role == "dupes" || r.P(1, 4)) {
			a[n-1] = a[0] // duplicate inside one call
		}
		if n >= 1 && r.P(1, 5) && len(s.m) > 0 {
			a[0] = tabIndex(s.d, s.m[r.Intn(len(s.m))]) // a member
		}
		if n >= 1 && r.P(1, 10) {
			a[n-1] = -1 - r.Intn(len(s.d.Probes)) // a non-member probe
		}
		return a
	}
	w := []int{10, 7, 1}
	switch c.Role {
	case "adder":
		w = []int{10, 1, 0}
	case "remover":
		w = []int{3, 10, 0}
	case "clearer":
		w = []int{10, 3, 3}
	}
	if len(s.m) > 0 && len(s.m) <= 200 && s.cfg.Elem != "float" && r.P(1, 25) {
		// (not over floats: a hash set takes every NaN it is given as a new member, so handing its Values() back
		// doubles them each time while the model counts one - the container, not the model, would decide the cost)
		// the set's own Values() handed back to it: all of it to Add (nothing to do), all or all but one member
		// to Remove
		return Op{ID: id, N: r.PickS("AddOwn", "AddOwn", "RemoveOwn", "RemoveOwnTail"), A: []int{r.Intn(1000)}}
	}
	switch r.Weighted(w...) {
	case 0:
		return Op{ID: id, N: "Add", A: args()}
	case 1:
		return Op{ID: id, N: "Remove", A: args()}
	}
	return Op{ID: id, N: "Clear"}
}

func (s *setSubj[T]) modelAdd(vs []T) {
	for _, v := range vs {
		if s.find(v) < 0 {
			s.m = append(slices.Clone(s.m), v)
		}
	}
}

func (s *setSubj[T]) ModelApply(op Op) {
	switch op.N {
	case "Add":
		s.modelAdd(s.vals(op.A))
	case "Remove":
		for _, v := range s.vals(op.A) {
			if i := s.find(v); i >= 0 {
				s.m = slices.Delete(slices.Clone(s.m), i, i+1)
			}
		}
	case "Clear", "RemoveOwn":
		s.m = nil
	case "AddOwn", "Churn":
	case "RemoveOwnTail":
		if len(s.m) > 0 {
			s.m = []T{s.modelOrdered()[op.A[0]%len(s.m)]}
		}
	case "Shrink":
		if len(s.m) > op.A[0] {
			s.m = slices.Clone(s.m[:op.A[0]])
		}
	case "Fill":
		idx := make(map[string]bool, len(s.m))
		m := slices.Clone(s.m)
		for _, x := range m {
			idx[s.class(x)] = true
		}
		for _, x := range s.vals(fillIdx(op.A)) {
			if c := s.class(x); !idx[c] {
				idx[c] = true
				m = append(m, x)
			}
		}
		s.m = m
	case "New":
		s.m = nil
		s.modelAdd(s.vals(op.A))
	default:
		panic("set model: unknown op " + op.N)
	}
}

func (s *setSubj[T]) counted(o *Oracle, what string, items int, f func()) {
	if s.calls == nil || s.cfg.Kind != "treeset" {
		f()
		return
	}
	before := s.s.Size()
	*s.calls = 0
	f()
	c := int(*s.calls)
	n := max(before, s.s.Size()) + items // the most favourable n over the whole variadic call
	b := int(2*log2(float64(n)+1)+2) * items
	if c > b {
		o.Fail("C07", "work-bound", "%s of %d items on treeset with n<=%d made %d comparator calls, bound %d", what, items, n, c, b)
	}
}

func (s *setSubj[T]) Step(op Op, o *Oracle) {
	o.cur = op
	o.Kind = s.cfg.Kind
	switch op.N {
	case "Add":
		vs := s.vals(op.A)
		s.counted(o, "Add", len(vs), func() { s.s.Add(vs...) })
		s.afterCall(vs)
	case "Remove":
		vs := s.vals(op.A)
		s.counted(o, "Remove", len(vs), func() { s.s.Remove(vs...) })
		s.afterCall(vs)
	case "Clear":
		s.s.Clear()
	case "Churn": // op.A[0] times: three strangers are added in one call and removed in one call
		var strangers []T
		for _, x := range append(slices.Clone(s.d.Probes), s.d.Tab...) {
			if s.find(x) < 0 && !slices.ContainsFunc(strangers, func(y T) bool { return s.class(y) == s.class(x) }) && s.class(x) == s.class(x) {
				strangers = append(strangers, x)
			}
			if len(strangers) == 3 {
				break
			}
		}
		for i := 0; i < op.A[0] && len(strangers) > 0 && s.d.Elem != "float"; i++ {
			s.s.Add(strangers...)
			s.s.Remove(strangers...)
			if got := s.s.Size(); got != len(s.m) && o.On("C04") {
				// (asked after every pair: the pairs that follow would take the strangers out again)
				o.Fail("C04", "size", "pair %d of a long run of Add(%s) / Remove(%s): Size()=%d, members %d", i, joinS(strangers, s.d.Str), joinS(strangers, s.d.Str), got, len(s.m))
				break
			}
			if i%512 == 0 {
				opSteps = 0
			}
		}
	case "AddOwn", "RemoveOwn", "RemoveOwnTail":
		// the slice Values() returned is handed straight back (the caller's data, like any other argument)
		vs := ownArgs(s.s.Values())
		if s.scribble {
			s.lastArgs = slices.Clone(vs)
		}
		switch op.N {
		case "AddOwn":
			s.counted(o, "Add", len(vs), func() { s.s.Add(vs...) })
		case "RemoveOwn":
			s.counted(o, "Remove", len(vs), func() { s.s.Remove(vs...) })
		default:
			// all members but one (chosen from the model, in the model's canonical order: what is left does not
			// depend on the order in which a hash set happens to list its members)
			if len(s.m) > 0 {
				keep := s.modelOrdered()[op.A[0]%len(s.m)]
				rest := slices.Clone(vs)
				rest = slices.DeleteFunc(rest, func(x T) bool { return s.class(x) == s.class(keep) })
				s.counted(o, "Remove", len(rest), func() { s.s.Remove(rest...) })
			}
		}
		s.afterCall(vs)
	case "Shrink": // one bulk Remove of all members but op.A[0] of them (taken from the model: no read of the container)
		if len(s.m) > op.A[0] {
			s.s.Remove(slices.Clone(s.m[op.A[0]:])...)
		}
	case "Fill":
		s.s.Add(s.vals(fillIdx(op.A))...)
	case "New":
		vs := s.vals(op.A)
		s.s = s.make(vs...)
		s.afterCall(vs)
	default:
		panic("set: unknown op " + op.N)
	}
	s.ModelApply(op)
	if s.calls != nil && o.On("C07") {
		x := s.d.At(derive(op.ID, 5, len(s.d.Tab)))
		s.counted(o, "Contains", 1, func() { s.s.Contains(x) })
	}
	s.check(o)
}

// modelOrdered returns the members in the order the kind's discipline prescribes ("" for hash).
func (s *setSubj[T]) modelOrdered() []T {
	ms := slices.Clone(s.m)
	if s.cfg.Kind == "treeset" {
		sort.SliceStable(ms, func(i, j int) bool { return s.d.Cmp(ms[i], ms[j]) < 0 })
	}
	return ms
}

func (s *setSubj[T]) check(o *Oracle) {
	if o.Sparse {
		return
	}
	if !(o.On("C04") || o.On("C02") || o.On("C09") || o.On("C15") || o.On("C16")) {
		return
	}
	if derive(o.cur.ID, 91, 2) == 1 && o.On("C04") {
		for j := 0; j < 3; j++ { // (observer order varies, see listSubj.check)
			v := s.d.At(derive(o.cur.ID, 92+j, len(s.d.Tab)))
			if got, want := s.s.Contains(v), s.find(v) >= 0; got != want {
				o.Fail("C04", "contains", "after %s (asked before Values()): Contains(%s)=%v, want %v", o.cur, s.d.Str(v), got, want)
			}
		}
		if got := s.s.Size(); got != len(s.m) {
			o.Fail("C04", "size", "after %s (asked before Values()): Size()=%d, want %d", o.cur, got, len(s.m))
		}
	}
	vals := s.s.Values()
	if o.On("C04") || o.On("C16") {
		tag := "C04"
		if !o.On("C04") {
			tag = "C16"
		}
		probe := func(x T) {
			if got, want := s.s.Contains(x), s.find(x) >= 0; got != want {
				o.Fail(tag, "contains", "after %s: Contains(%s)=%v, want %v", o.cur, s.d.Str(x), got, want)
			}
		}
		for _, x := range probeTab(s.d.Tab, s.cfg, o.cur.ID) {
			probe(x)
		}
		for _, x := range s.d.Probes {
			probe(x)
		}
		if !s.s.Contains() {
			o.Fail(tag, "contains-empty", "after %s: Contains() with no arguments is false", o.cur)
		}
		n := 1 + derive(o.cur.ID, 1, 6)
		others := 3
		if derive(o.cur.ID, 2, 6) == 0 {
			n = 30 + derive(o.cur.ID, 3, 20) // a long argument list, nearly all members (repeated)
			others = 24
		}
		q := make([]T, n)
		want := true
		for i := range q {
			if len(s.m) > 0 && derive(o.cur.ID, 20+i, others) > 0 {
				q[i] = s.m[derive(o.cur.ID, 30+i, len(s.m))]
			} else {
				q[i] = s.d.At(derive(o.cur.ID, 10+i, len(s.d.Tab)))
			}
			want = want && s.find(q[i]) >= 0
		}
		if got := s.s.Contains(q...); got != want {
			o.Fail(tag, "contains-multi", "after %s: Contains(%s)=%v, want %v", o.cur, joinS(q, s.d.Str), got, want)
		}
		if len(vals) == len(s.m) && len(vals) <= 300 && derive(o.cur.ID, 7, 4) == 0 {
			// the set's own Values() handed back: all members; the same list with one stranger among them
			if !s.s.Contains(vals...) {
				o.Fail(tag, "contains-multi", "after %s: Contains(Values()...) is false; Values() = %s", o.cur, joinS(vals, s.d.Str))
			}
			// ... and every member twice in a row (a sorted list that kept its duplicates, checked against the set)
			twice := make([]T, 0, 2*len(vals))
			for _, v := range vals {
				twice = append(twice, v, v)
			}
			if !s.s.Contains(twice...) {
				o.Fail(tag, "contains-multi", "after %s: Contains(%s) is false, every argument is a member", o.cur, joinS(twice, s.d.Str))
			}
			for _, x := range s.d.Probes {
				if s.find(x) < 0 {
					mixed := slices.Insert(slices.Clone(vals), derive(o.cur.ID, 8, len(vals)+1), x)
					if s.s.Contains(mixed...) {
						o.Fail(tag, "contains-multi", "after %s: Contains(%s) is true, %s is no member", o.cur, joinS(mixed, s.d.Str), s.d.Str(x))
					}
					break
				}
			}
		}
		if got := s.s.Size(); got != len(s.m) {
			o.Fail(tag, "size", "after %s: Size()=%d, distinct members %d", o.cur, got, len(s.m))
		}
		g := sortedStrings(mapS(vals, s.class))
		w := sortedStrings(mapS(s.m, s.class))
		if !slices.Equal(g, w) {
			o.Fail(tag, "values-once", "after %s: Values() %v, members %v", o.cur, g, w)
		}
	}
	if o.On("C02") && s.cfg.Kind == "treeset" {
		for i := 1; i < len(vals); i++ {
			if s.d.Cmp(vals[i-1], vals[i]) >= 0 {
				o.Fail("C02", "values-ascending", "after %s: TreeSet Values() not strictly ascending under %s: %s", o.cur, s.d.CmpName, joinS(vals, s.d.Str))
				break
			}
		}
		ms := s.modelOrdered()
		if !slices.Equal(mapS(vals, s.class), mapS(ms, s.class)) {
			o.Fail("C02", "values-sorted-content", "after %s: Values()=%s, want classes of %s", o.cur, joinS(vals, s.d.Str), joinS(ms, s.d.Str))
		}
		i := 0
		for it := setIter(s.s); it.Next(); i++ {
			if i >= len(vals) || s.d.Str(it.Value()) != s.d.Str(vals[i]) || it.Index() != i {
				o.Fail("C02", "iterator-sequence", "after %s: iterator element %d (Index()=%d) is %s, Values()=%s", o.cur, i, it.Index(), s.d.Str(it.Value()), joinS(vals, s.d.Str))
				break
			}
		}
		if i != len(vals) && !o.Failed() {
			o.Fail("C02", "iterator-length", "after %s: iterator yielded %d elements, Values() has %d", o.cur, i, len(vals))
		}
	}
	if o.On("C09") && s.cfg.Kind == "linkedhashset" {
		want := mapS(s.m, s.d.Str)
		if g := mapS(vals, s.d.Str); !slices.Equal(g, want) {
			o.Fail("C09", "values-order", "after %s: Values() %v, insertion order %v", o.cur, g, want)
		}
		var itGot, eachGot []string
		for it := setIter(s.s); it.Next(); {
			itGot = append(itGot, s.d.Str(it.Value()))
		}
		reenter := o.cur.ID%3 == 0 && len(vals) <= 512 // one check in three: the callback reads the set it is enumerating (quadratic: small sets only)
		setEnum(s.s).Each(func(_ int, v T) {
			if reenter {
				s.s.Values()
				setEnum(s.s).All(func(int, T) bool { return true })
			}
			eachGot = append(eachGot, s.d.Str(v))
		})
		if !slices.Equal(itGot, want) {
			o.Fail("C09", "iterator-order", "after %s: iterator order %v, insertion order %v", o.cur, itGot, want)
		}
		if !slices.Equal(eachGot, want) {
			o.Fail("C09", "each-order", "after %s: Each order %v, insertion order %v", o.cur, eachGot, want)
		}
		b, err := s.IO().ToJSON()
		xs, ok := refDecodeSlice[T](b)
		if err != nil || !ok {
			o.Unjudged("C09 ToJSON order: document not decodable")
		} else if g := mapS(xs, s.d.Str); !slices.Equal(g, want) {
			o.Fail("C09", "tojson-order", "after %s: ToJSON order %v (document %s), insertion order %v", o.cur, g, b, want)
		}
	}
	checkC15(o, s.s, len(vals), -1, setNames[s.cfg.Kind])
}

func (s *setSubj[T]) canon(vals []T) string {
	xs := mapS(vals, s.class)
	if s.cfg.Kind == "hashset" {
		sort.Strings(xs)
	}
	return bracket(xs)
}

func (s *setSubj[T]) Obs() string {
	return fmt.Sprintf("size=%d empty=%v values=%s", s.s.Size(), s.s.Empty(), s.canon(s.s.Values()))
}

func (s *setSubj[T]) ObsJSON() string {
	b, err := s.IO().ToJSON()
	if err != nil {
		if strings.Contains(err.Error(), "unsupported value") {
			return s.Obs() + " json=ERR: unsupported value"
		}
		return s.Obs() + " json=ERR:" + err.Error()
	}
	if s.cfg.Kind == "hashset" {
		el, _ := arrayElems(b)
		sort.Strings(el)
		return s.Obs() + " json(" + topKind(b) + ")=" + bracket(el)
	}
	return s.Obs() + " json=" + string(b)
}

func (s *setSubj[T]) ModelObs() string {
	return fmt.Sprintf("size=%d empty=%v values=%s", len(s.m), len(s.m) == 0, s.canon(s.modelOrdered()))
}

func (s *setSubj[T]) LoadModel(b []byte) bool {
	xs, ok := refDecodeSlice[T](b)
	if !ok {
		return false
	}
	s.loadD = xs
	s.m = nil
	s.modelAdd(xs) // first-occurrence order, one representative per class
	return true
}

func (s *setSubj[T]) CheckLoaded(o *Oracle, tag string) {
	// every member must be an element of the input; classes must agree; LinkedHashSet keeps
	// first-occurrence order. The representative of a comparator class is the container's choice.
	vals := s.s.Values()
	for _, v := range vals {
		if !slices.Contains(s.loadD, v) {
			o.Fail(tag, "loaded-foreign-member", "after %s: member %s is not an element of the input %s", o.cur, s.d.Str(v), joinS(s.loadD, s.d.Str))
			return
		}
	}
	if s.cfg.Kind == "treeset" && len(vals) == len(s.m) {
		ms := s.modelOrdered()
		same := true
		for i := range vals {
			same = same && s.class(vals[i]) == s.class(ms[i])
		}
		if same {
			s.m = vals
		}
	}
	if got, want := s.Obs(), s.ModelObs(); got != want {
		o.Fail(tag, "loaded-content", "after %s: container %s, input denotes %s", o.cur, got, want)
	}
}

// ---- iterators / enumerables / algebra -------------------------------------------------------------

func setIter[T comparable](s sets.Set[T]) containers.IteratorWithIndex[T] {
	switch s := s.(type) {
	case *treeset.Set[T]:
		it := s.Iterator()
		return &it
	case *linkedhashset.Set[T]:
		it := s.Iterator()
		return &it
	}
	return nil
}

func setEnum[T comparable](s sets.Set[T]) *idxEnumA[T] {
	switch s := s.(type) {
	case *treeset.Set[T]:
		return &idxEnumA[T]{s,
			func(f func(int, T) bool) any { return s.Select(f) },
			func(f func(int, T) T) any { return s.Map(f) }}
	case *linkedhashset.Set[T]:
		return &idxEnumA[T]{s,
			func(f func(int, T) bool) any { return s.Select(f) },
			func(f func(int, T) T) any { return s.Map(f) }}
	}
	return nil
}

// setAlgebra applies Intersection / Union / Difference of two sets of the same concrete kind.
func setAlgebra[T comparable](a, b sets.Set[T], op string) sets.Set[T] {
	switch x := a.(type) {
	case *hashset.Set[T]:
		y := b.(*hashset.Set[T])
		switch op {
		case "Intersection":
			return x.Intersection(y)
		case "Union":
			return x.Union(y)
		}
		return x.Difference(y)
	case *treeset.Set[T]:
		y := b.(*treeset.Set[T])
		switch op {
		case "Intersection":
			return x.Intersection(y)
		case "Union":
			return x.Union(y)
		}
		return x.Difference(y)
	case *linkedhashset.Set[T]:
		y := b.(*linkedhashset.Set[T])
		switch op {
		case "Intersection":
			return x.Intersection(y)
		case "Union":
			return x.Union(y)
		}
		return x.Difference(y)
	}
	panic("setAlgebra")
}

// ---- read-only catalogue (C18) ----------------------------------------------------------------------

var setReads = []string{"Contains", "Contains", "Size", "Empty", "Values", "String", "ToJSON", "MarshalJSON", "Walk", "WalkBack", "NextTo", "Each", "Any", "All", "Find", "Select", "Map", "Sorted",
	"Intersection", "Union", "Difference"}

func (s *setSubj[T]) GenRead(r *Rng, id int) Op {
	n := setReads[r.Intn(len(setReads))]
	return Op{ID: id, N: n, A: []int{r.Intn(len(s.d.Tab)), r.Intn(len(s.d.Tab)), r.Intn(7)}}
}

func (s *setSubj[T]) DoRead(op Op) string {
	if o, ok := readOther.(*setSubj[T]); ok && o != s && o.cfg.Kind == s.cfg.Kind && op.A[2]%2 == 0 {
		return s.doRead(op, o)
	}
	return s.doRead(op, nil)
}

func (s *setSubj[T]) doRead(op Op, other *setSubj[T]) string {
	a := op.A
	d := s.d
	switch op.N {
	case "Contains":
		if a[2] == 6 { // a long argument list
			many := make([]T, 33+a[1]%16)
			for j := range many {
				many[j] = d.At(a[0] + j*(1+a[1]&1))
			}
			return strconv.FormatBool(s.s.Contains(many...))
		}
		if a[2] == 5 { // one argument slice shared by all callers (spread)
			sh := sharedArgs(d)
			return strconv.FormatBool(s.s.Contains(sh[:2+a[1]%(len(sh)-1)]...))
		}
		return strconv.FormatBool(s.s.Contains(d.At(a[0]))) + strconv.FormatBool(s.s.Contains(d.At(a[0]), d.At(a[1])))
	case "Size":
		return strconv.Itoa(s.s.Size())
	case "Empty":
		return strconv.FormatBool(s.s.Empty())
	case "Values":
		return s.canon(s.s.Values())
	case "String":
		if s.cfg.Kind == "hashset" {
			return strconv.Itoa(len(s.s.String()))
		}
		return s.s.String()
	case "ToJSON":
		return s.ObsJSON()
	case "MarshalJSON":
		b, err := s.IO().MarshalJSON()
		el, _ := arrayElems(b)
		sort.Strings(el)
		return bracket(el) + fmtErr(err)
	case "Sorted":
		return joinS(containers.GetSortedValuesFunc[T](s.s, d.Cmp), d.Class)
	case "Intersection", "Union", "Difference":
		o := s
		if other != nil {
			o = other
		}
		r := setAlgebra[T](s.s, o.s, op.N)
		if s.cfg.Kind == "treeset" {
			return s.canon(r.Values())
		}
		return bracket(sortedStrings(mapS(r.Values(), s.class))) // result order of the hash-based kinds is unspecified
	}
	if setIter(s.s) == nil {
		return "n/a"
	}
	return readIdx[T](op, d, func() containers.IteratorWithIndex[T] { return setIter(s.s) }, setEnum(s.s))
}

// ---- hostile catalogue (C17) ----------------------------------------------------------------------------

func (s *setSubj[T]) GenHostile(r *Rng, id int) Op {
	names := []string{"Add", "Add", "Remove", "Clear", "Contains", "Values", "String", "ToJSON", "Iter", "Enum", "Sorted", "Size", "Algebra"}
	n := names[r.Intn(len(names))]
	cnt := genCount(r)
	if r.P(1, 12) {
		cnt = r.Range(10, 64)
	}
	a := []int{r.Intn(1 << 20)}
	for i := 0; i < cnt; i++ {
		if r.P(1, 6) {
			a = append(a, -1-r.Intn(len(s.d.Probes)))
		} else {
			a = append(a, r.Intn(len(s.d.Tab)))
		}
	}
	return Op{ID: id, N: n, A: a}
}

func (s *setSubj[T]) DoHostile(op Op) {
	a := op.A
	vs := s.vals(a[1:])
	switch op.N {
	case "Add":
		if s.s.Size() <= hostileMaxSize {
			s.s.Add(vs...)
		}
	case "Remove":
		s.s.Remove(vs...)
	case "Clear":
		s.s.Clear()
	case "Contains":
		s.s.Contains(vs...)
	case "Values":
		s.s.Values()
	case "String":
		_ = s.s.String()
	case "ToJSON":
		s.IO().ToJSON()
		s.IO().MarshalJSON()
	case "Size":
		s.s.Size()
		s.s.Empty()
	case "Sorted":
		containers.GetSortedValuesFunc[T](s.s, s.d.Cmp)
	case "Iter":
		if it := setIter(s.s); it != nil {
			hostileIdxIter[T](it, a[0])
		}
	case "Enum":
		hostileIdxEnum[T](setEnum(s.s), a[0], s.d)
		if en := setEnum(s.s); en != nil && a[0]%3 == 0 {
			// results of Select/Map are sets like any other: algebra among them and with the receiver
			r1 := en.Select(func(i int, _ T) bool { return i%2 == 0 }).(sets.Set[T])
			r2 := en.Map(func(_ int, v T) T { return v }).(sets.Set[T])
			for _, n := range []string{"Intersection", "Union", "Difference"} {
				setAlgebra[T](r1, r2, n).Add(vs...)
				setAlgebra[T](r2, s.s, n).Add(vs...)
				setAlgebra[T](s.s, r1, n).Add(vs...)
			}
		}
	case "Algebra":
		other := s.make(vs...)
		for _, n := range []string{"Intersection", "Union", "Difference"} {
			setAlgebra[T](s.s, other, n)
			setAlgebra[T](other, s.s, n)
			setAlgebra[T](s.s, s.s, n)
		}
		if f := s.foreign(vs); f != nil && a[0]%2 == 0 {
			// a TreeSet ordered by another comparator function: a legal call (documented to return an empty set)
			for _, n := range []string{"Intersection", "Union", "Difference"} {
				setAlgebra[T](s.s, f, n)
				setAlgebra[T](f, s.s, n)
			}
		}
	}
}

// foreign builds a TreeSet of the given elements ordered by a comparator that is another function than the
// subject's (TreeSet decides "same comparator" by the function's identity); nil for the other kinds.
func (s *setSubj[T]) foreign(vs []T) sets.Set[T] {
	if s.cfg.Kind != "treeset" {
		return nil
	}
	d := s.d
	return treeset.NewWith[T](func(a, b T) int { return d.Cmp(b, a) }, vs...)
}

func (s *setSubj[T]) EncodeModel() []byte {
	if s.m == nil {
		return []byte("[]")
	}
	return mustJSON(s.modelOrdered())
}
func (s *setSubj[T]) AdoptModel(from Subject) { s.m = slices.Clone(from.(*setSubj[T]).m) }

// CheckNow runs the state comparison regardless of the sparse setting.
func (s *setSubj[T]) CheckNow(o *Oracle) {
	sp := o.Sparse
	o.Sparse = false
	s.check(o)
	o.Sparse = sp
}
