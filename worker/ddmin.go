package main

import (
	"bytes"
	"encoding/json"
	"os"
	"os/exec"
	"path/filepath"
	"time"
)

// execFresh replays a plan in a fresh copy of this worker process and returns its violation.
func execFresh(p *Plan) *Violation {
	exe, err := os.Executable()
	if err != nil {
		return nil
	}
	f, err := os.CreateTemp("", "godsim-min-*.json")
	if err != nil {
		return nil
	}
	defer os.Remove(f.Name())
	b, _ := json.Marshal(p)
	f.Write(b)
	f.Close()
	rl := f.Name() + ".race"
	defer func() {
		if files, _ := filepath.Glob(rl + ".*"); files != nil {
			for _, x := range files {
				os.Remove(x)
			}
		}
	}()
	cmd := exec.Command(exe, "-replay", f.Name(), "-racelog", rl)
	cmd.Env = append(os.Environ(), "GORACE=halt_on_error=0 log_path="+rl)
	var out bytes.Buffer
	cmd.Stdout = &out
	cmd.Run()
	var res struct {
		Violation *Violation `json:"violation"`
	}
	for _, line := range bytes.Split(out.Bytes(), []byte("\n")) {
		if bytes.HasPrefix(line, []byte("{")) && json.Unmarshal(line, &res) == nil && res.Violation != nil {
			return res.Violation
		}
	}
	return nil
}

// variadicOps maps the names of operations whose argument list may be shortened to 1 + the number
// of leading fixed arguments.
var variadicOps = map[string]int{"Add": 1, "Append": 1, "Prepend": 1, "Push": 1, "New": 1, "Insert": 2}

func mustJSON(v any) []byte {
	b, err := json.Marshal(v)
	if err != nil {
		panic(err)
	}
	return b
}

// inProcessReplayable reports whether a violation class can be re-checked inside this process.
// Race reports cannot: the detector suppresses repeats of an identical report within a process.
func inProcessReplayable(v *Violation) bool { return v.Race == "" }

// minimise shrinks the plan while the same violation class persists: drop op chunks (halves ...
// singles) from the history and from each reader script, drop faults, then simplify arguments.
// Bounded by wall-clock and by the number of replays.
func minimise(w World, p *Plan, v *Violation, budgetS float64) (*Plan, *Violation) {
	mp, mv := minimiseWith(w, p, v, budgetS, !inProcessReplayable(v))
	if !inProcessReplayable(v) {
		return mp, mv
	}
	// A failure may depend on state the library keeps per process (a package-level pool or cache warmed by
	// earlier operations). In-process minimisation then cuts away the operations that warmed it, and the
	// result would not replay in a fresh process: check, and if so minimise again with fresh-process replays.
	if got := execFresh(mp); got != nil && got.Class() == mv.Class() {
		return mp, mv
	}
	if got := execFresh(p); got != nil && got.Class() == v.Class() {
		fp, fv := minimiseWith(w, p, got, budgetS, true)
		fp.Note = "minimised with fresh-process replays: the failure depends on process-wide state of the library"
		return fp, fv
	}
	// depends on state left in the process by earlier runs: replay those first
	if len(recentPlans) > 0 {
		c := p.Clone()
		c.Warmup = append([]*Plan(nil), recentPlans...)
		c.Note = "the failure depends on state the library keeps per process, left there by earlier runs: the preceding plans of the worker process are replayed first (warmup), with garbage collection off"
		if got := execFresh(c); got != nil && got.Class() == v.Class() {
			return c, got
		}
	}
	return p.Clone(), v // (the driver will report that it does not replay)
}

// recentPlans: the last plans this worker process executed before the current one (oldest first).
var recentPlans []*Plan

func minimiseWith(w World, p *Plan, v *Violation, budgetS float64, fresh bool) (*Plan, *Violation) {
	deadline := time.Now().Add(time.Duration(budgetS * float64(time.Second)))
	replays := 0
	class := v.Class()
	best, bestV := p.Clone(), v
	try := func(c *Plan) bool {
		if replays >= 4000 || (fresh && replays >= 150) || time.Now().After(deadline) {
			return false
		}
		replays++
		var got *Violation
		if fresh {
			got = execFresh(c) // the race detector reports each race once per process: replay in a fresh one
		} else {
			got = w.Exec(c, &RunStats{})
		}
		if got != nil && got.Class() == class {
			best, bestV = c, got
			return true
		}
		return false
	}
	// the original must reproduce in-process; otherwise leave it alone (the driver will find out)
	if !try(p.Clone()) {
		return p.Clone(), v
	}
	// truncate after the failing op first: everything after it is irrelevant
	if bestV.OpID >= 0 {
		for i, op := range best.Ops {
			if op.ID == bestV.OpID && i+1 < len(best.Ops) {
				c := best.Clone()
				c.Ops = c.Ops[:i+1]
				try(c)
				break
			}
		}
	}
	shrinkList := func(get func(*Plan) []Op, set func(*Plan, []Op)) {
		n := 2
		for {
			ops := get(best)
			if len(ops) == 0 {
				return
			}
			if n > len(ops) {
				n = len(ops)
			}
			chunk := (len(ops) + n - 1) / n
			reduced := false
			for start := 0; start < len(ops); start += chunk {
				end := min(start+chunk, len(ops))
				c := best.Clone()
				cand := append(append([]Op(nil), ops[:start]...), ops[end:]...)
				set(c, cand)
				if try(c) {
					reduced = true
					break
				}
				if time.Now().After(deadline) {
					return
				}
			}
			if reduced {
				n = max(n-1, 2)
				continue
			}
			if chunk == 1 {
				return
			}
			n = min(n*2, len(ops))
		}
	}
	shrinkList(func(p *Plan) []Op { return p.Ops }, func(p *Plan, o []Op) { p.Ops = o })
	for ri := range best.Readers {
		ri := ri
		shrinkList(func(p *Plan) []Op { return p.Readers[ri] }, func(p *Plan, o []Op) { p.Readers[ri] = o })
	}
	// drop faults one at a time
	for i := 0; i < len(best.Faults); {
		c := best.Clone()
		c.Faults = append(append([]Fault(nil), c.Faults[:i]...), c.Faults[i+1:]...)
		if !try(c) {
			i++
		}
	}
	// shorten variadic argument lists and shrink byte strings
	for i := 0; i < len(best.Ops); i++ {
		// (hostile-world ops carry fixed leading arguments of their own: their lists are left alone)
		for best.World != "hostile" && variadicOps[best.Ops[i].N] > 0 && len(best.Ops[i].A) > variadicOps[best.Ops[i].N]-1 {
			c := best.Clone()
			a := c.Ops[i].A
			c.Ops[i].A = append([]int(nil), a[:len(a)-1]...)
			if !try(c) {
				break
			}
		}
		for (best.Ops[i].N == "Fill" || best.Ops[i].N == "Scale") && best.Ops[i].A[0] > 1 {
			c := best.Clone()
			c.Ops[i].A = append([]int{best.Ops[i].A[0] / 2}, best.Ops[i].A[1:]...)
			if !try(c) {
				c = best.Clone()
				c.Ops[i].A = append([]int{best.Ops[i].A[0] - 1}, best.Ops[i].A[1:]...)
				if best.Ops[i].A[0] > 64 || !try(c) {
					break
				}
			}
		}
		for len(best.Ops[i].B) > 0 {
			c := best.Clone()
			b := c.Ops[i].B
			c.Ops[i].B = append([]byte(nil), b[:len(b)/2]...)
			c.Ops[i].T = string(c.Ops[i].B)
			if !try(c) {
				break
			}
		}
	}
	// smaller element tables
	for _, d := range []int{2, 4, 8, 16} {
		if d < best.Cfg.Dom {
			c := best.Clone()
			c.Cfg.Dom = d
			if try(c) {
				break
			}
		}
	}
	best.Minimised = true
	return best, bestV
}
