package main

// Own PRNG (xoshiro256**, seeded through splitmix64) so that the stream cannot change with the Go
// release. Every choice of a run is drawn from one Rng during plan generation.

type Rng struct{ s [4]uint64 }

func splitmix(x *uint64) uint64 {
	*x += 0x9e3779b97f4a7c15
	z := *x
	z = (z ^ (z >> 30)) * 0xbf58476d1ce4e5b9
	z = (z ^ (z >> 27)) * 0x94d049bb133111eb
	return z ^ (z >> 31)
}

func mix(a, b uint64) uint64 {
	x := a ^ (b * 0x9e3779b97f4a7c15)
	return splitmix(&x)
}

func hashStr(s string) uint64 {
	h := uint64(1469598103934665603)
	for i := 0; i < len(s); i++ {
		h ^= uint64(s[i])
		h *= 1099511628211
	}
	return h
}

func NewRng(seed uint64) *Rng {
	r := &Rng{}
	x := seed
	for i := range r.s {
		r.s[i] = splitmix(&x)
	}
	return r
}

func rotl(x uint64, k uint) uint64 { return (x << k) | (x >> (64 - k)) }

func (r *Rng) U64() uint64 {
	s := &r.s
	res := rotl(s[1]*5, 7) * 9
	t := s[1] << 17
	s[2] ^= s[0]
	s[3] ^= s[1]
	s[1] ^= s[2]
	s[0] ^= s[3]
	s[2] ^= t
	s[3] = rotl(s[3], 45)
	return res
}

// Intn returns a value in [0,n). n<=0 yields 0.
func (r *Rng) Intn(n int) int {
	if n <= 1 {
		return 0
	}
	return int(r.U64() % uint64(n))
}

// Range returns a value in [lo,hi].
func (r *Rng) Range(lo, hi int) int {
	if hi <= lo {
		return lo
	}
	return lo + r.Intn(hi-lo+1)
}

func (r *Rng) Bool() bool { return r.U64()&1 == 1 }

// P returns true with probability num/den.
func (r *Rng) P(num, den int) bool { return r.Intn(den) < num }

func (r *Rng) Pick(xs ...int) int { return xs[r.Intn(len(xs))] }

func (r *Rng) PickS(xs ...string) string { return xs[r.Intn(len(xs))] }

// Weighted picks an index with the given weights.
func (r *Rng) Weighted(w ...int) int {
	t := 0
	for _, x := range w {
		t += x
	}
	if t <= 0 {
		return 0
	}
	k := r.Intn(t)
	for i, x := range w {
		if k < x {
			return i
		}
		k -= x
	}
	return len(w) - 1
}

func (r *Rng) Perm(n int) []int {
	p := make([]int, n)
	for i := range p {
		p[i] = i
	}
	for i := n - 1; i > 0; i-- {
		j := r.Intn(i + 1)
		p[i], p[j] = p[j], p[i]
	}
	return p
}
