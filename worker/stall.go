package main

import (
	"fmt"
	"os"
	"regexp"
	"runtime"
	"strings"
	"time"
)

// Stall detector. Termination is judged in simulated steps (yield sites), which cannot see an operation that waits
// for ever inside the library - on a lock the library took itself (a read-only call re-entered from a callback while
// a library mutex is held), on a channel or a WaitGroup of goroutines it started. Go's own deadlock detection
// does not fire here (this process has timers), so: when no yield site has been passed for stallAfter of wall-clock
// time, every goroutine's stack is examined, and ONLY IF some goroutine is blocked in a lock / channel / wait
// operation whose caller is library code (first frame outside runtime and sync is in emirpasic/gods) the process
// ends the way a Go fatal error does ("fatal error: ..." on standard error, exit status 2). The driver then treats it
// like any runtime fatal error: it regenerates the run's plan, replays it in a fresh process, and reports a
// violation only if that process ends the same way. A slow harness step, a starved process or a long std-library
// call never matches (no goroutine is blocked under library code), so wall-clock time alone never produces a verdict.
const stallAfter = 25 * time.Second

//go:norace
func stepsNow() int64 { return stepCount }

var blockedState = regexp.MustCompile(`^goroutine \d+ \[(sync\.Mutex\.Lock|sync\.RWMutex\.R?Lock|semacquire|chan receive|chan send|select|sync\.WaitGroup\.Wait|sync\.Cond\.Wait)[,\]]`)

func blockedInLibrary(dump string) string {
	for _, g := range strings.Split(dump, "\n\n") {
		lines := strings.Split(g, "\n")
		if len(lines) < 3 || !blockedState.MatchString(lines[0]) {
			continue
		}
		for i := 1; i+1 < len(lines); i += 2 {
			fn := lines[i]
			if strings.HasPrefix(fn, "runtime.") || strings.HasPrefix(fn, "sync.") || strings.HasPrefix(fn, "internal/") || strings.HasPrefix(fn, "sync/atomic.") {
				continue
			}
			if strings.Contains(fn, "emirpasic/gods/") && !strings.Contains(fn, "/simrt.") {
				return g
			}
			break
		}
	}
	return ""
}

func startStallDetector() {
	go func() {
		last, since := stepsNow(), time.Now()
		for {
			time.Sleep(2 * time.Second)
			if now := stepsNow(); now != last {
				last, since = now, time.Now()
				continue
			}
			if time.Since(since) < stallAfter {
				continue
			}
			buf := make([]byte, 1<<20)
			buf = buf[:runtime.Stack(buf, true)]
			if g := blockedInLibrary(string(buf)); g != "" {
				fmt.Fprintf(os.Stderr, "fatal error: godsim stall detector: an operation has been waiting inside the library for %v without passing a yield site (blocked for ever: a lock, channel or wait operation called from library code)\n\n%s\n", stallAfter, g)
				os.Exit(2)
			}
			since = time.Now() // nothing is blocked under library code: slow harness or std-library work, keep waiting
		}
	}()
}
