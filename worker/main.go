package main

import (
	"encoding/json"
	"flag"
	"fmt"
	"os"
	"path/filepath"
	"runtime"
	"runtime/debug"
	"runtime/pprof"
	"sort"
	"strings"
	"time"

	"github.com/emirpasic/gods/v2/simrt"
)

// World is one property's simulation: plan generation (all randomness), plan execution (none).
type World interface {
	Gen(seed uint64, tier string) *Plan
	Exec(p *Plan, st *RunStats) *Violation
}

var worlds = map[string]World{}

// ---- simulated time, reach probes, map-order seam ----------------------------------------------

var (
	stepCount   int64 // yield sites passed = simulated time
	opSteps     int64 // yield sites passed inside the current operation
	siteHits    []int64
	permCounter uint64
	permSeed    uint64
	stepLimit   int64 = 50_000_000 // an operation passing more yield sites than this is declared non-terminating
)

type nonTermination struct{ steps int64 }

//go:norace
func countHook(site int) {
	stepCount++
	opSteps++
	siteHits[site]++
	if opSteps > stepLimit {
		opSteps = 0
		panic(nonTermination{stepLimit})
	}
}

//go:norace
func permHook(n int) uint64 {
	permCounter++
	return mix(permSeed, permCounter)
}

func attach(p *Plan) {
	opSteps = 0
	permSeed, permCounter = p.Cfg.MapSeed, 0
	simrt.Hook = countHook
	simrt.Perm = permHook
}

// harnessBug is re-panicked when a panic originates in the harness itself: never a VIOLATION.
type harnessBug struct{ v any }

// panicOrigin walks the panicking stack: the first frame that is neither runtime nor standard
// library decides whether the library under test ("gods") or the harness ("main") panicked.
func panicOrigin() (origin string, frames []string) {
	pcs := make([]uintptr, 64)
	n := runtime.Callers(3, pcs)
	fr := runtime.CallersFrames(pcs[:n])
	seenPanic := false
	for {
		f, more := fr.Next()
		fn := f.Function
		if strings.HasPrefix(fn, "runtime.") {
			if strings.Contains(fn, "panic") || strings.Contains(fn, "sigpanic") {
				seenPanic = true
			}
		} else if seenPanic {
			if len(frames) < 10 {
				frames = append(frames, fmt.Sprintf("%s (%s:%d)", fn, filepath.Base(f.File), f.Line))
			}
			if origin == "" {
				switch {
				case strings.Contains(fn, "emirpasic/gods/v2/simrt"):
				case strings.Contains(fn, "emirpasic/gods"):
					origin = "gods"
				case strings.HasPrefix(fn, "main."):
					origin = "main"
				}
			}
		}
		if !more {
			break
		}
	}
	return origin, frames
}

// safely runs f, converting a panic raised by the library into a violation of the active
// property (the operation did not produce the outcome the property defines).
func safely(o *Oracle, op Op, f func()) {
	defer func() {
		if r := recover(); r != nil {
			o.cur = op
			tag := o.Report
			if !o.Active[tag] {
				for _, t := range sortedKeys(o.Active) {
					tag = t
				}
			}
			if nt, ok := r.(nonTermination); ok {
				o.Fail(tag, "non-termination", "%s did not terminate within %d simulated steps", op, nt.steps)
				return
			}
			if hb, ok := r.(harnessBug); ok {
				panic(hb)
			}
			origin, frames := panicOrigin()
			if origin != "gods" {
				fmt.Fprintf(diag, "HARNESS BUG: panic outside the library during %s: %v\n%s\n%s\n", op, r, strings.Join(frames, "\n"), debug.Stack())
				panic(harnessBug{r})
			}
			o.Fail(tag, "panic", "%s panicked: %v\n%s", op, r, strings.Join(frames, "\n"))
		}
	}()
	opSteps = 0
	f()
}

// ---- aggregation -----------------------------------------------------------------------------------

type Agg struct {
	T          string         `json:"t"`
	Worker     int            `json:"worker"`
	Runs       int            `json:"runs"`
	Steps      int64          `json:"steps"`
	Ops        int64          `json:"ops"`
	Switches   int64          `json:"switches"`
	Faults     map[string]int `json:"faults"`
	Unjudged   map[string]int `json:"unjudged"`
	Probes     map[string]int `json:"probes"`
	Kinds      map[string]int `json:"kinds"`
	Strats     map[string]int `json:"strats"`
	NonTrivial []uint64       `json:"nontrivial_hashes"`
	States     []uint64       `json:"state_hashes"`
	Scheds     []uint64       `json:"sched_hashes"`
	SiteHits   []int64        `json:"site_hits"`
	Samples    []*Plan        `json:"samples"`
	MaxSize    int            `json:"max_size"`
	WallS      float64        `json:"wall_s"`
}

func addMap(dst, src map[string]int) {
	for k, v := range src {
		dst[k] += v
	}
}

type logger struct{ f *os.File }

func (l *logger) emit(v any) {
	b, _ := json.Marshal(v)
	l.f.Write(append(b, '\n'))
}

func runSeed(base uint64, prop string, idx int) uint64 {
	return mix(mix(base, hashStr(prop)), uint64(idx))
}

func writeReplay(dir string, p *Plan, v *Violation) string {
	p.Violation = v
	b, _ := json.MarshalIndent(p, "", " ")
	name := fmt.Sprintf("%s-%d.json", p.Property, p.Seed)
	path := filepath.Join(dir, name)
	os.MkdirAll(dir, 0o755)
	os.WriteFile(path, b, 0o644)
	return path
}

func main() {
	prop := flag.String("prop", "", "property id")
	tier := flag.String("tier", "quick", "quick|thorough")
	seed := flag.Uint64("seed", 1, "VERIF_SEED")
	worker := flag.Int("worker", 0, "worker index")
	nworkers := flag.Int("nworkers", 1, "number of workers")
	budget := flag.Float64("budget", 10, "wall-clock budget in seconds")
	maxRuns := flag.Int("maxruns", 0, "stop after this many runs (0 = budget only)")
	logPath := flag.String("log", "", "log file")
	replayDir := flag.String("replaydir", "replays", "directory for replay files")
	replay := flag.String("replay", "", "replay file to execute")
	known := flag.String("known", "", "comma separated signatures of open known findings")
	traceSeed := flag.Int64("trace", -1, "print the event log of run index N (determinism self-test)")
	minBudget := flag.Float64("minbudget", 20, "minimisation wall-clock budget in seconds")
	regress := flag.String("regress", "", "directory of regression plans (run first by worker 0)")
	flag.StringVar(&raceLogPrefix, "racelog", "", "prefix of the race detector's log files (GORACE log_path)")
	cpuProf := flag.String("cpuprofile", "", "write a CPU profile of this process (development aid)")
	dumpPlan := flag.Int("dumpplan", -1, "write the plan of run index N to -out and exit")
	outPath := flag.String("out", "", "output path for -dumpplan")
	flag.Parse()
	if *cpuProf != "" {
		if f, err := os.Create(*cpuProf); err == nil {
			pprof.StartCPUProfile(f)
			defer pprof.StopCPUProfile()
		}
	}

	siteHits = make([]int64, simrt.NSites+1)
	initWorlds()
	startStallDetector()

	if *replay != "" {
		if b, err := os.ReadFile(*replay); err == nil {
			var rp Plan
			if json.Unmarshal(b, &rp) == nil {
				base := ""
				if raceLogPrefix != "" {
					base = raceLogPrefix + ".c17" // kept: the driver reads what the Go runtime wrote before killing the process
				}
				setupProcess(rp.Property, base)
			}
		}
		code := doReplay(*replay)
		pprof.StopCPUProfile()
		os.Exit(code)
	}
	if *dumpPlan < 0 {
		setupProcess(*prop, *logPath)
	}
	w := worlds[*prop]
	if w == nil {
		fmt.Fprintln(os.Stderr, "unknown property", *prop)
		os.Exit(2)
	}
	if *dumpPlan >= 0 {
		rs := runSeed(*seed, *prop, *dumpPlan)
		p := w.Gen(rs, *tier)
		p.Property, p.Seed = *prop, rs
		p.Note = "plan regenerated by the driver after the worker process was killed by a Go runtime fatal error"
		b, _ := json.MarshalIndent(p, "", " ")
		if err := os.WriteFile(*outPath, b, 0o644); err != nil {
			fmt.Fprintln(os.Stderr, err)
			os.Exit(4)
		}
		return
	}
	if *traceSeed >= 0 {
		doTrace(w, *prop, *seed, int(*traceSeed), *tier)
		return
	}
	lf, err := os.OpenFile(*logPath, os.O_CREATE|os.O_WRONLY|os.O_TRUNC, 0o644)
	if err != nil {
		fmt.Fprintln(os.Stderr, err)
		os.Exit(2)
	}
	lg := &logger{lf}
	cur, _ := os.OpenFile(*logPath+".cur", os.O_CREATE|os.O_WRONLY|os.O_TRUNC, 0o644)
	knownSet := map[string]bool{}
	for _, k := range strings.Split(*known, ",") {
		if k != "" {
			knownSet[k] = true
		}
	}
	reported := map[string]bool{}
	regressFailed := false

	agg := &Agg{T: "done", Worker: *worker, Faults: map[string]int{}, Unjudged: map[string]int{}, Probes: map[string]int{}, Kinds: map[string]int{}, Strats: map[string]int{}}
	nt := map[uint64]bool{}
	states := map[uint64]bool{}
	scheds := map[uint64]bool{}
	start := time.Now()
	// regression corpus: minimised replay files of findings that were repaired ("fixed" entries of
	// known_findings.json suppress nothing - if one returns it is reported again)
	if *worker == 0 && *regress != "" {
		files, _ := filepath.Glob(filepath.Join(*regress, *prop+"-*.json"))
		sort.Strings(files)
		for _, f := range files {
			b, err := os.ReadFile(f)
			var rp Plan
			if err != nil || json.Unmarshal(b, &rp) != nil || rp.Property != *prop {
				fmt.Fprintln(os.Stderr, "HARNESS BUG: unreadable regression plan", f)
				os.Exit(4)
			}
			rp.Violation = nil
			st := &RunStats{}
			v := w.Exec(&rp, st)
			agg.Runs++
			agg.Steps += st.Steps
			agg.Ops += int64(st.Ops)
			agg.Probes["regression-plan"]++
			if v != nil && !knownSet[v.Signature()] {
				rp.Note = "regression corpus plan " + filepath.Base(f)
				path := writeReplay(*replayDir, &rp, v)
				lg.emit(map[string]any{"t": "violation", "signature": v.Signature(), "violation": v, "replay": path, "run": -1, "seed": rp.Seed})
				regressFailed = true
				break
			}
		}
	}
	deadline := start.Add(time.Duration(*budget * float64(time.Second)))
	for idx := *worker; !regressFailed; idx += *nworkers {
		if *maxRuns > 0 && agg.Runs >= *maxRuns {
			break
		}
		if time.Now().After(deadline) {
			break
		}
		rs := runSeed(*seed, *prop, idx)
		cur.WriteAt([]byte(fmt.Sprintf("%-40s\n", fmt.Sprintf("run=%d seed=%d", idx, rs))), 0)
		p := w.Gen(rs, *tier)
		p.Property, p.Seed = *prop, rs
		st := &RunStats{}
		v := w.Exec(p, st)
		if v == nil {
			recentPlans = append(recentPlans, p)
			if len(recentPlans) > 3 {
				recentPlans = recentPlans[1:]
			}
		}
		agg.Runs++
		agg.Steps += st.Steps
		agg.Ops += int64(st.Ops)
		agg.Switches += int64(st.Switches)
		addMap(agg.Faults, st.Faults)
		addMap(agg.Unjudged, st.Unjudged)
		addMap(agg.Probes, st.Probes)
		agg.Kinds[p.Cfg.Kind+"/"+p.Cfg.Elem]++
		if p.Cfg.Strat != "" {
			agg.Strats[p.Cfg.Strat]++
		}
		agg.MaxSize = max(agg.MaxSize, st.MaxSize)
		if st.NonTrivial && len(nt) < 1<<21 {
			nt[p.Hash()] = true
		}
		for _, h := range st.States {
			if len(states) < 1<<21 {
				states[h] = true
			}
		}
		if st.SchedHash != 0 && len(scheds) < 1<<21 {
			scheds[st.SchedHash] = true
		}
		if len(agg.Samples) < 2 && st.NonTrivial {
			agg.Samples = append(agg.Samples, samplePlan(p))
		}
		if v != nil {
			sig := v.Signature()
			if knownSet[sig] {
				if !reported[sig] {
					reported[sig] = true
					mp, mv := minimise(w, p, v, *minBudget)
					path := writeReplay(*replayDir, mp, mv)
					lg.emit(map[string]any{"t": "known", "signature": sig, "violation": mv, "replay": path})
				}
				continue
			}
			mp, mv := minimise(w, p, v, *minBudget)
			path := writeReplay(*replayDir, mp, mv)
			lg.emit(map[string]any{"t": "violation", "signature": sig, "violation": mv, "replay": path, "run": idx, "seed": rs, "ops_before": len(p.Ops), "ops_after": len(mp.Ops)})
			break
		}
	}
	for h := range nt {
		agg.NonTrivial = append(agg.NonTrivial, h)
	}
	for h := range states {
		agg.States = append(agg.States, h)
	}
	for h := range scheds {
		agg.Scheds = append(agg.Scheds, h)
	}
	sort.Slice(agg.NonTrivial, func(i, j int) bool { return agg.NonTrivial[i] < agg.NonTrivial[j] })
	agg.SiteHits = siteHits
	agg.WallS = time.Since(start).Seconds()
	lg.emit(agg)
	lf.Close()
}

func samplePlan(p *Plan) *Plan {
	q := p.Clone()
	if len(q.Ops) > 40 {
		q.Note = fmt.Sprintf("sample truncated: first 40 of %d ops", len(q.Ops))
		q.Ops = q.Ops[:40]
	}
	for i := range q.Readers {
		if len(q.Readers[i]) > 12 {
			q.Readers[i] = q.Readers[i][:12]
		}
	}
	return q
}

func doReplay(path string) int {
	b, err := os.ReadFile(path)
	if err != nil {
		fmt.Fprintln(os.Stderr, err)
		return 2
	}
	var p Plan
	if err := json.Unmarshal(b, &p); err != nil {
		fmt.Fprintln(os.Stderr, "bad replay file:", err)
		return 2
	}
	w := worlds[p.Property]
	if w == nil {
		fmt.Fprintln(os.Stderr, "unknown property", p.Property)
		return 2
	}
	want := p.Violation
	p.Violation = nil
	if len(p.Warmup) > 0 {
		debug.SetGCPercent(-1) // pooled objects must not be dropped at an arbitrary moment
		for _, wp := range p.Warmup {
			wp.Violation = nil
			w.Exec(wp, &RunStats{})
		}
	}
	v := w.Exec(&p, &RunStats{})
	out := map[string]any{"violation": v}
	if want != nil {
		out["expected_class"] = want.Class()
	}
	if v != nil {
		out["class"] = v.Class()
		out["signature"] = v.Signature()
	}
	jb, _ := json.Marshal(out)
	fmt.Fprintln(resultOut, string(jb))
	if v == nil {
		return 0
	}
	if want != nil && v.Class() != want.Class() {
		return 3
	}
	return 1
}

// doTrace prints a canonical event log of one run: used by the determinism self-test, which diffs
// the logs of separate processes.
func doTrace(w World, prop string, base uint64, idx int, tier string) {
	rs := runSeed(base, prop, idx)
	p := w.Gen(rs, tier)
	p.Property, p.Seed = prop, rs
	st := &RunStats{}
	traceOn = true
	v := w.Exec(p, st)
	b, _ := json.Marshal(p)
	fmt.Fprintf(resultOut, "plan %016x %s\n", p.Hash(), b)
	for _, l := range traceLog {
		fmt.Fprintln(resultOut, l)
	}
	fmt.Fprintf(resultOut, "steps=%d ops=%d switches=%d sched=%016x faults=%v unjudged=%v\n", st.Steps, st.Ops, st.Switches, st.SchedHash, st.Faults, st.Unjudged)
	vb, _ := json.Marshal(v)
	fmt.Fprintf(resultOut, "violation %s\n", vb)
}

var traceOn bool
var traceLog []string

func trace(format string, args ...any) {
	if traceOn {
		traceLog = append(traceLog, fmt.Sprintf(format, args...))
	}
}
