package main

import (
	"reflect"
	"encoding/json"
	"slices"
	"strconv"

	"github.com/emirpasic/gods/v2/maps"
	"github.com/emirpasic/gods/v2/maps/hashbidimap"
	"github.com/emirpasic/gods/v2/maps/hashmap"
	"github.com/emirpasic/gods/v2/maps/linkedhashmap"
	"github.com/emirpasic/gods/v2/maps/treebidimap"
	"github.com/emirpasic/gods/v2/maps/treemap"
	"github.com/emirpasic/gods/v2/trees/avltree"
	"github.com/emirpasic/gods/v2/trees/btree"
	"github.com/emirpasic/gods/v2/trees/redblacktree"
)

// C11, value types: the key-value containers are generic in the value type, and what ToJSON writes
// for a value is whatever encoding/json writes for it - an object for a struct or a map, an array for
// a slice, null for a nil pointer. This sub-world of the C11 world runs the checkpoint / restart
// round trip with values of several JSON shapes (the main world uses string values only). Values are
// compared by their JSON text, so a number that comes back as float64 inside an `any` is still equal.

var valShapes = []string{"struct", "map", "slice", "any", "ptr", "nested"}

type vEnt[K comparable] struct {
	k K
	v string // JSON text of the value
}

// jtext is the canonical JSON text of a value (object members sorted, so a struct and the map it
// comes back as inside an `any` are the same text).
func jtext(v any) string {
	b, err := json.Marshal(v)
	if err != nil {
		return "ERR:" + err.Error()
	}
	var x any
	if json.Unmarshal(b, &x) == nil {
		if c, err := json.Marshal(x); err == nil {
			b = c
		}
	}
	return string(b)
}

func mkStruct(i int) Item { return Item{P: i%5 - 2, ID: i} }
func mkMap(i int) map[string]int {
	return []map[string]int{{}, {"a": i}, {"}": 1, "{": 2}, nil, {"x": -i, "y": 0}}[i%5]
}
func mkSlice(i int) []int { return [][]int{{}, {i}, nil, {1, 2, 3}, {-i, 0}}[i%5] }
func mkPtr(i int) *Item {
	if i%3 == 0 {
		return nil
	}
	return &Item{P: i, ID: -i}
}
func mkAny(i int) any {
	return []any{nil, i, "s" + strconv.Itoa(i), map[string]any{"k": []any{1, "}"}}, []any{}, Item{P: i}, true, 1.5, "}", map[string]any{}}[i%10]
}

func newKVV[K comparable, V any](kind string, order int, cmp func(a, b K) int) maps.Map[K, V] {
	switch kind {
	case "hashmap":
		return hashmap.New[K, V]()
	case "treemap":
		return treemap.NewWith[K, V](cmp)
	case "linkedhashmap":
		return linkedhashmap.New[K, V]()
	case "redblacktree":
		return redblacktree.NewWith[K, V](cmp)
	case "avltree":
		return avltree.NewWith[K, V](cmp)
	case "btree":
		return btree.NewWith[K, V](order, cmp)
	}
	panic("kvv kind " + kind)
}

// runKVV executes the plan on a map[K]V container. bidi is non-nil for the two bidirectional maps
// (which need comparable values: the struct shape).
func runKVV[K comparable, V any](p *Plan, st *RunStats, o *Oracle, d *Dom[K], mk func(int) V, fresh func() maps.Map[K, V]) {
	m := fresh()
	var ents []vEnt[K]
	kind := p.Cfg.Kind
	disc := kvDiscipline(kind)
	find := func(k K) int {
		for i, e := range ents {
			if d.Str(e.k) == d.Str(k) {
				return i
			}
		}
		return -1
	}
	ordered := func() []vEnt[K] {
		es := slices.Clone(ents)
		if disc == "tree" {
			slices.SortStableFunc(es, func(a, b vEnt[K]) int { return d.Cmp(a.k, b.k) })
		}
		return es
	}
	obs := func(c maps.Map[K, V]) []string {
		var out []string
		for _, k := range c.Keys() {
			v, ok := c.Get(k)
			out = append(out, d.Str(k)+"="+jtext(v)+strconv.FormatBool(ok))
		}
		if disc == "hash" {
			slices.Sort(out)
		}
		return append(out, "size="+strconv.Itoa(c.Size()))
	}
	want := func() []string {
		var out []string
		for _, e := range ordered() {
			out = append(out, d.Str(e.k)+"="+e.v+"true")
		}
		if disc == "hash" {
			slices.Sort(out)
		}
		return append(out, "size="+strconv.Itoa(len(ents)))
	}
	restarts := 0
	for _, op := range p.Ops {
		op := op
		st.Ops++
		safely(o, op, func() {
			o.cur = op
			switch op.N {
			case "Put":
				k, v := d.At(op.A[0]), mk(op.A[1])
				m.Put(k, v)
				if kvIsBidi(kind) {
					// eviction of the pair holding the same value (struct values compare with ==)
					vt := jtext(v)
					if i := find(k); i >= 0 {
						ents = slices.Delete(slices.Clone(ents), i, i+1)
					}
					for i, e := range ents {
						if e.v == vt {
							ents = slices.Delete(slices.Clone(ents), i, i+1)
							break
						}
					}
					ents = append(ents, vEnt[K]{k, vt})
				} else if i := find(k); i >= 0 {
					ents = slices.Clone(ents)
					ents[i].v = jtext(v)
				} else {
					ents = append(slices.Clone(ents), vEnt[K]{k, jtext(v)})
				}
			case "Remove":
				k := d.At(op.A[0])
				m.Remove(k)
				if i := find(k); i >= 0 {
					ents = slices.Delete(slices.Clone(ents), i, i+1)
				}
			case "Clear":
				m.Clear()
				ents = nil
			case "Checkpoint", "Restart":
				io := m.(jsonIO)
				b, err := io.ToJSON()
				if err != nil {
					o.Fail("C11", "tojson-error", "ToJSON failed: %v", err)
					return
				}
				if !json.Valid(b) {
					o.Fail("C11", "tojson-invalid", "ToJSON returned invalid JSON: %s", b)
					return
				}
				if topKind(b) != "object" {
					o.Fail("C11", "tojson-kind", "ToJSON returned a JSON %s (%s), want an object", topKind(b), b)
					return
				}
				mb, err := json.Marshal(m)
				if err != nil {
					o.Fail("C11", "marshal-error", "json.Marshal(container) failed: %v (ToJSON gave %s)", err, b)
					return
				}
				if !sameDocument(b, mb, disc == "hash") {
					o.Fail("C11", "marshal-differs", "ToJSON %s differs from json.Marshal(container) %s", b, mb)
					return
				}
				if disc != "hash" && string(b) != string(mb) {
					o.Fail("C11", "marshal-differs-bytes", "ToJSON %s and json.Marshal(container) %s denote the same document but are not identical", b, mb)
					return
				}
				if op.N == "Checkpoint" {
					return
				}
				st.Fault("crash-restart")
				f := fresh()
				var lerr error
				switch op.A[0] % 3 {
				case 0:
					lerr = f.(jsonIO).FromJSON(b)
				case 1:
					lerr = f.(jsonIO).UnmarshalJSON(b)
				default:
					lerr = json.Unmarshal(b, f)
				}
				if lerr != nil {
					o.Fail("C11", "restart-load-error", "loading the container's own ToJSON output %s into a fresh container failed: %v", b, lerr)
					return
				}
				if g, w := obs(f), want(); !slices.Equal(g, w) {
					o.Fail("C11", "restart-content", "after reloading %s into a fresh container: %v, want %v", b, g, w)
					return
				}
				// the reloaded values are the Go values encoding/json makes of the document (a number read into an `any`
				// is a float64, not a json.Number or an int: the same text is not the same content)
				ref := map[K]V{}
				if err := json.Unmarshal(b, &ref); err == nil {
					for k, rv := range ref {
						if g, ok := f.Get(k); !ok || !reflect.DeepEqual(g, rv) {
							o.Fail("C11", "restart-content", "after reloading %s into a fresh container Get(%s) = %T(%v) (found %v); encoding/json reads that member as %T(%v)", b, d.Str(k), g, g, ok, rv, rv)
							return
						}
					}
				}
				if g, l := obs(f), obs(m); !slices.Equal(g, l) {
					o.Fail("C11", "restart-differs-from-live", "reloaded container %v differs from the live one %v (document %s)", g, l, b)
					return
				}
				m = f
				restarts++
			}
			if g, w := obs(m), want(); !slices.Equal(g, w) && !o.Failed() {
				o.Fail("C11", "values-world-model", "after %s: container %v, model %v", op, g, w)
			}
		})
		if o.Failed() {
			break
		}
	}
	st.NonTrivial = restarts >= 1 && len(p.Ops) >= 6
}

func runKVVKeyed[K comparable](p *Plan, st *RunStats, o *Oracle, d *Dom[K]) {
	kind, order := p.Cfg.Kind, p.Cfg.Order
	switch p.Cfg.Mode {
	case "vals:struct":
		switch kind {
		case "hashbidimap":
			runKVV[K, Item](p, st, o, d, mkStruct, func() maps.Map[K, Item] { return hashbidimap.New[K, Item]() })
		case "treebidimap":
			vc := func(a, b Item) int { return intDiff(a.P*1000+a.ID, b.P*1000+b.ID) }
			runKVV[K, Item](p, st, o, d, mkStruct, func() maps.Map[K, Item] { return treebidimap.NewWith[K, Item](d.Cmp, vc) })
		default:
			runKVV[K, Item](p, st, o, d, mkStruct, func() maps.Map[K, Item] { return newKVV[K, Item](kind, order, d.Cmp) })
		}
	case "vals:map":
		runKVV[K, map[string]int](p, st, o, d, mkMap, func() maps.Map[K, map[string]int] { return newKVV[K, map[string]int](kind, order, d.Cmp) })
	case "vals:slice":
		runKVV[K, []int](p, st, o, d, mkSlice, func() maps.Map[K, []int] { return newKVV[K, []int](kind, order, d.Cmp) })
	case "vals:ptr":
		runKVV[K, *Item](p, st, o, d, mkPtr, func() maps.Map[K, *Item] { return newKVV[K, *Item](kind, order, d.Cmp) })
	case "vals:nested": // containers as values: the outer ToJSON runs the inner ones
		runKVV[K, any](p, st, o, d, mkNested, func() maps.Map[K, any] { return newKVV[K, any](kind, order, d.Cmp) })
	default:
		runKVV[K, any](p, st, o, d, mkAny, func() maps.Map[K, any] { return newKVV[K, any](kind, order, d.Cmp) })
	}
}

// genVals generates a plan of the value-types sub-world.
func genVals(r *Rng, tier string) *Plan {
	cfg := genCfg(r, kvKinds, tier)
	cfg.Dom = []int{3, 4, 6, 8, 12}[r.Intn(5)]
	cfg.Ctor = ""
	if cfg.Cmp == "div9" || cfg.Cmp == "mod5" || cfg.Cmp == "len" || cfg.Cmp == "fold" || cfg.Cmp == "ext" {
		cfg.Cmp = "rev"
	}
	shape := valShapes[r.Intn(len(valShapes))]
	if kvIsBidi(cfg.Kind) {
		shape = "struct"
	}
	cfg.Mode = "vals:" + shape
	if r.P(1, 12) {
		// the value containers over an element type with JSON methods on the pointer receiver
		cfg.Mode = "vals:custom-marshalers"
		return &Plan{World: "json-vals", Cfg: cfg, Ops: []Op{{ID: 0, N: "CustomMarshalers", A: []int{r.Intn(1 << 20)}}}}
	}
	p := &Plan{World: "json-vals", Cfg: cfg, Clients: []string{"writer", "snapshot-store"}}
	n := []int{4, 8, 16, 30}[r.Intn(4)]
	id := 0
	for i := 0; i < n; i++ {
		switch r.Weighted(10, 4, 1, 2, 3) {
		case 0:
			p.Ops = append(p.Ops, Op{ID: id, N: "Put", A: []int{r.Intn(cfg.Dom), r.Intn(40)}})
		case 1:
			p.Ops = append(p.Ops, Op{ID: id, N: "Remove", A: []int{r.Intn(cfg.Dom)}})
		case 2:
			p.Ops = append(p.Ops, Op{ID: id, N: "Clear"})
		case 3:
			p.Ops = append(p.Ops, Op{ID: id, N: "Checkpoint", C: 1})
		default:
			p.Ops = append(p.Ops, Op{ID: id, N: "Restart", C: 1, A: []int{r.Intn(3)}})
		}
		id++
	}
	p.Ops = append(p.Ops, Op{ID: id, N: "Restart", C: 1, A: []int{r.Intn(3)}})
	return p
}

func execVals(p *Plan, st *RunStats) *Violation {
	attach(p)
	start := stepCount
	o := NewOracle("C11", "C11")
	o.Kind = p.Cfg.Kind
	if p.Cfg.Mode == "vals:custom-marshalers" {
		if len(p.Ops) == 1 && len(p.Ops[0].A) == 1 {
			safely(o, p.Ops[0], func() { o.cur = p.Ops[0]; customMarshalerProbe(o, p.Ops[0].A[0]); stringerKeyProbe(o, p.Ops[0].A[0]); keyTypesProbe(o, p.Ops[0].A[0]) })
			st.Ops, st.NonTrivial = 1, true
		}
		st.Steps = stepCount - start
		return o.V
	}
	n := max(p.Cfg.Dom, 2)
	curPool = p.Cfg.Pool
	if p.Cfg.Elem == "string" {
		runKVVKeyed(p, st, o, strDom(n, p.Cfg.Cmp, int(p.Cfg.MapSeed%uint64(len(strPool())))))
	} else {
		runKVVKeyed(p, st, o, intDom(n, p.Cfg.Cmp, int(p.Cfg.MapSeed>>16%uint64(len(intPool())))))
	}
	st.Steps = stepCount - start
	return o.V
}
