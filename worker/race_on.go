//go:build race

package main

import "runtime"

const raceEnabled = true

func raceDisable()    { runtime.RaceDisable() }
func raceEnable()     { runtime.RaceEnable() }
func raceErrors() int { return runtime.RaceErrors() }
