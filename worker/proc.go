package main

// setupProcess prepares process-level monitors (C17: stdout/stderr capture).
func setupProcess(prop string) {}
