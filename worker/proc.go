package main

import (
	"io"
	"os"
	"syscall"
)

// diag is where the harness writes its own diagnostics (the original standard error).
var diag io.Writer = os.Stderr

// resultOut is where replay results are printed (the original standard output).
var resultOut io.Writer = os.Stdout

// setupProcess prepares process-level monitors. For C17 file descriptors 1 and 2 are redirected
// to files this worker owns, so that any byte the library writes to the process's standard output
// or standard error is seen (seam S6); the original stderr is kept for harness diagnostics.
func setupProcess(prop string, logPath string) {
	if prop != "C17" {
		return
	}
	base := logPath
	if base == "" {
		f, err := os.CreateTemp("", "godsim-c17-")
		if err != nil {
			return
		}
		base = f.Name()
		f.Close()
		defer os.Remove(base)
	}
	if fd, err := syscall.Dup(2); err == nil {
		diag = os.NewFile(uintptr(fd), "orig-stderr")
	}
	if fd, err := syscall.Dup(1); err == nil {
		resultOut = os.NewFile(uintptr(fd), "orig-stdout")
	}
	var err error
	capOut, err = os.OpenFile(base+".fd1", os.O_CREATE|os.O_RDWR|os.O_TRUNC, 0o644)
	if err != nil {
		return
	}
	capErr, err = os.OpenFile(base+".fd2", os.O_CREATE|os.O_RDWR|os.O_TRUNC, 0o644)
	if err != nil {
		return
	}
	syscall.Dup2(int(capOut.Fd()), 1)
	syscall.Dup2(int(capErr.Fd()), 2)
	if logPath == "" {
		os.Remove(base + ".fd1")
		os.Remove(base + ".fd2")
	}
}
