package main

import (
	"fmt"
	"strings"

	"github.com/emirpasic/gods/v2/containers"
	"github.com/emirpasic/gods/v2/lists"
	"github.com/emirpasic/gods/v2/lists/arraylist"
	"github.com/emirpasic/gods/v2/lists/doublylinkedlist"
	"github.com/emirpasic/gods/v2/lists/singlylinkedlist"
)

// ---- callback families --------------------------------------------------------------------------

const nPreds = 10
const nMaps = 6

// idxPred returns predicate number p of the family over (index, value).
func idxPred[T comparable](d *Dom[T], p, k int) func(int, T) bool {
	pivot := d.At(k)
	switch posMod(p, nPreds) {
	case 0:
		return func(int, T) bool { return true }
	case 1:
		return func(int, T) bool { return false }
	case 2:
		return func(i int, _ T) bool { return i >= k%5 }
	case 3:
		return func(i int, _ T) bool { return i%2 == 1 }
	case 4:
		return func(_ int, v T) bool { return d.Cmp(v, pivot) < 0 }
	case 5:
		return func(_ int, v T) bool { return v == pivot }
	case 6:
		return func(i int, v T) bool { return i%3 == 0 && d.Cmp(v, pivot) >= 0 }
	case 8: // a long leading run of matches, then none (whole blocks of 8, 64, ... positions all match)
		return func(i int, _ T) bool { return i < 8*k }
	case 9: // ... and the other way round
		return func(i int, _ T) bool { return i >= 8*k }
	}
	// (the exact rendering tells -0 from +0 and one representative of a comparator class from another)
	return func(i int, v T) bool { return d.Cmp(v, pivot) == 0 || i == k%7 || hashStr(d.Str(v))%4 == 0 }
}

func tabIndex[T comparable](d *Dom[T], v T) int {
	for i, x := range d.Tab {
		if sameElem(d, x, v) {
			return i
		}
	}
	return int(hashStr(d.Str(v)) % uint64(len(d.Tab)))
}

// idxMap returns mapping number p of the family over (index, value).
func idxMap[T comparable](d *Dom[T], p, k int) func(int, T) T {
	switch posMod(p, nMaps) {
	case 0:
		return func(_ int, v T) T { return v }
	case 1:
		return func(int, T) T { return d.At(k) }
	case 2:
		return func(i int, _ T) T { return d.At(i + k) }
	case 3:
		return func(_ int, v T) T { return d.At(int(hashStr(d.Class(v)) % 3)) } // many-to-one
	case 4:
		return func(_ int, v T) T { return d.At(tabIndex(d, v) + k) }
	}
	return func(i int, v T) T { return d.At(tabIndex(d, v)/2 + i%2) }
}

// keyPred / keyMap: the family over (key, value) with string values.
func keyPred[K comparable](d *Dom[K], p, k int) func(K, string) bool {
	pivot := d.At(k)
	switch posMod(p, nPreds) {
	case 0:
		return func(K, string) bool { return true }
	case 1:
		return func(K, string) bool { return false }
	case 2:
		return func(key K, _ string) bool { return d.Cmp(key, pivot) >= 0 }
	case 3:
		return func(_ K, v string) bool { return len(v)%2 == 1 }
	case 4:
		return func(key K, _ string) bool { return d.Cmp(key, pivot) < 0 }
	case 5:
		return func(key K, _ string) bool { return key == pivot }
	case 6:
		return func(key K, v string) bool { return strings.HasSuffix(v, "1") || d.Cmp(key, pivot) == 0 }
	}
	return func(key K, v string) bool { return hashStr(d.Str(key)+v)%3 == 0 && d.Cmp(key, pivot) != 0 }
}

func keyMap[K comparable](d *Dom[K], vtab []string, p, k int) func(K, string) (K, string) {
	switch posMod(p, nMaps) {
	case 0:
		return func(key K, v string) (K, string) { return key, v }
	case 1: // key-collapsing
		return func(key K, v string) (K, string) { return d.At(int(hashStr(d.Class(key)) % 3)), v }
	case 2: // value-collapsing
		return func(key K, v string) (K, string) { return key, vtab[int(hashStr(v)%2)%len(vtab)] }
	case 3: // both
		return func(key K, v string) (K, string) {
			return d.At(tabIndex(d, key)/2 + k), vtab[int(hashStr(v)%3)%len(vtab)]
		}
	case 4: // shift keys
		return func(key K, v string) (K, string) { return d.At(tabIndex(d, key) + k), v + "'" }
	}
	return func(key K, v string) (K, string) { return d.At(k), v }
}

// ---- enumerable adapters --------------------------------------------------------------------------

type idxEnumA[T comparable] struct {
	containers.EnumerableWithIndex[T]
	Select func(f func(int, T) bool) any // the concrete result container
	Map    func(f func(int, T) T) any
}

func listEnum[T comparable](l lists.List[T]) *idxEnumA[T] {
	switch l := l.(type) {
	case *arraylist.List[T]:
		return &idxEnumA[T]{l,
			func(f func(int, T) bool) any { return l.Select(f) },
			func(f func(int, T) T) any { return l.Map(f) }}
	case *singlylinkedlist.List[T]:
		return &idxEnumA[T]{l,
			func(f func(int, T) bool) any { return l.Select(f) },
			func(f func(int, T) T) any { return l.Map(f) }}
	case *doublylinkedlist.List[T]:
		return &idxEnumA[T]{l,
			func(f func(int, T) bool) any { return l.Select(f) },
			func(f func(int, T) T) any { return l.Map(f) }}
	}
	panic("listEnum")
}

// ---- read-only helpers (C18 catalogue) --------------------------------------------------------------

func readIdx[T comparable](op Op, d *Dom[T], newIt func() containers.IteratorWithIndex[T], en *idxEnumA[T]) string {
	a := op.A
	var sb strings.Builder
	item := func(i int, v T) { fmt.Fprintf(&sb, "%d:%s ", i, d.Str(v)) }
	switch op.N {
	case "Walk":
		it := newIt()
		for it.Next() {
			item(it.Index(), it.Value())
		}
		// running off the end and restarting must give the first element again
		if it.First() {
			item(it.Index(), it.Value())
		}
	case "WalkBack":
		rit, ok := newIt().(containers.ReverseIteratorWithIndex[T])
		if !ok {
			return "n/a"
		}
		rit.End()
		for rit.Prev() {
			item(rit.Index(), rit.Value())
		}
		if rit.Last() {
			item(rit.Index(), rit.Value())
		}
	case "NextTo":
		it := newIt()
		f := idxPred(d, a[2], a[1])
		for it.NextTo(f) {
			item(it.Index(), it.Value())
		}
		if rit, ok := it.(containers.ReverseIteratorWithIndex[T]); ok {
			for rit.PrevTo(f) {
				item(rit.Index(), rit.Value())
			}
		}
	case "Each":
		if en == nil {
			return "n/a"
		}
		en.Each(item)
	case "Any":
		if en == nil {
			return "n/a"
		}
		return fmt.Sprint(en.Any(idxPred(d, a[2], a[1])))
	case "All":
		if en == nil {
			return "n/a"
		}
		return fmt.Sprint(en.All(idxPred(d, a[2], a[1])))
	case "Find":
		if en == nil {
			return "n/a"
		}
		i, v := en.Find(idxPred(d, a[2], a[1]))
		item(i, v)
	case "Select":
		if en == nil {
			return "n/a"
		}
		r := en.Select(idxPred(d, a[2], a[1])).(containers.Container[T])
		return joinS(r.Values(), d.Str)
	case "Map":
		if en == nil {
			return "n/a"
		}
		r := en.Map(idxMap(d, a[2], a[1])).(containers.Container[T])
		return joinS(r.Values(), d.Str)
	default:
		panic("readIdx: unknown read op " + op.N)
	}
	return sb.String()
}

// ---- hostile helpers (C17) ----------------------------------------------------------------------------

// hostileIdxIter drives an iterator with a derived move sequence; accessors are read only after a
// successful move (the documented usage).
func hostileIdxIter[T any](it containers.IteratorWithIndex[T], seed int) {
	rit, rev := it.(containers.ReverseIteratorWithIndex[T])
	x := uint64(seed) + 77
	cnt := 0
	pred := func(i int, _ T) bool { cnt++; return (uint64(i)+x)%3 == 0 }
	for step := 0; step < 24; step++ {
		m := int(splitmix(&x) % 9)
		ok := false
		switch m {
		case 0, 1:
			ok = it.Next()
		case 2:
			if rev {
				ok = rit.Prev()
			}
		case 3:
			it.Begin()
		case 4:
			if rev {
				rit.End()
			}
		case 5:
			ok = it.First()
		case 6:
			if rev {
				ok = rit.Last()
			}
		case 7:
			ok = it.NextTo(pred)
		case 8:
			if rev {
				ok = rit.PrevTo(pred)
			}
		}
		if ok {
			_ = it.Index()
			_ = it.Value()
		}
	}
}

func hostileKeyIter[K, V any](it containers.IteratorWithKey[K, V], seed int) {
	rit, rev := it.(containers.ReverseIteratorWithKey[K, V])
	x := uint64(seed) + 99
	n := 0
	pred := func(K, V) bool { n++; return (uint64(n)+x)%3 == 0 }
	for step := 0; step < 24; step++ {
		m := int(splitmix(&x) % 9)
		ok := false
		switch m {
		case 0, 1:
			ok = it.Next()
		case 2:
			if rev {
				ok = rit.Prev()
			}
		case 3:
			it.Begin()
		case 4:
			if rev {
				rit.End()
			}
		case 5:
			ok = it.First()
		case 6:
			if rev {
				ok = rit.Last()
			}
		case 7:
			ok = it.NextTo(pred)
		case 8:
			if rev {
				ok = rit.PrevTo(pred)
			}
		}
		if ok {
			_ = it.Key()
			_ = it.Value()
		}
	}
}

func hostileIdxEnum[T comparable](en *idxEnumA[T], seed int, d *Dom[T]) {
	if en == nil {
		return
	}
	p, k := seed%nPreds, seed/8
	en.Each(func(int, T) {})
	en.Any(idxPred(d, p, k))
	en.All(idxPred(d, p, k))
	en.Find(idxPred(d, p, k))
	en.Select(idxPred(d, p, k))
	en.Map(idxMap(d, seed%nMaps, k))
}
