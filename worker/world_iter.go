package main

import (
	"strings"
	"fmt"
	"strconv"

	"github.com/emirpasic/gods/v2/containers"
)

// C08: iterators are cursors over positions -1..n of the container's Values()/Keys() sequence.
// The container is built by a seeded history; then several iterator clients, each owning a fresh
// iterator and a model cursor (DESIGN.md appendix A.1), are interleaved by the scheduler while the
// container is not modified; then more mutation and new iterators.

type iterSnap interface {
	Len() int
	At(i int) string
	Match(i, p, k int) bool
	New() Cursor
}

type Cursor interface {
	// Move performs the named move; supported=false for the backward half of forward-only iterators.
	Move(name string, p, k int) (ret bool, hasRet bool, supported bool)
	Pos() string
}

type IterSubject interface{ IterSnapshot() iterSnap }

// ---- index flavour ---------------------------------------------------------------------------------

type idxSnap[T comparable] struct {
	d   *Dom[T]
	seq []T
	mk  func() containers.IteratorWithIndex[T]
}

func (s *idxSnap[T]) Len() int        { return len(s.seq) }
func (s *idxSnap[T]) At(i int) string { return strconv.Itoa(i) + ":" + s.d.Str(s.seq[i]) }
func (s *idxSnap[T]) Match(i, p, k int) bool {
	return idxPred(s.d, p, k)(i, s.seq[i])
}
func (s *idxSnap[T]) New() Cursor {
	it := s.mk()
	if it == nil {
		return nil
	}
	return &idxCursor[T]{d: s.d, it: it}
}

type idxCursor[T comparable] struct {
	d  *Dom[T]
	it containers.IteratorWithIndex[T]
}

func (c *idxCursor[T]) Pos() string {
	return strconv.Itoa(c.it.Index()) + ":" + c.d.Str(c.it.Value())
}

func (c *idxCursor[T]) Move(name string, p, k int) (bool, bool, bool) {
	rit, rev := c.it.(containers.ReverseIteratorWithIndex[T])
	switch name {
	case "Next":
		return c.it.Next(), true, true
	case "Begin":
		c.it.Begin()
		return false, false, true
	case "First":
		return c.it.First(), true, true
	case "NextTo":
		return c.it.NextTo(idxPred(c.d, p, k)), true, true
	}
	if !rev {
		return false, false, false
	}
	switch name {
	case "Prev":
		return rit.Prev(), true, true
	case "End":
		rit.End()
		return false, false, true
	case "Last":
		return rit.Last(), true, true
	case "PrevTo":
		return rit.PrevTo(idxPred(c.d, p, k)), true, true
	}
	panic("cursor: unknown move " + name)
}

// ---- key flavour -------------------------------------------------------------------------------------

type keySnap[K comparable] struct {
	d    *Dom[K]
	keys []K
	vals []string
	mk   func() containers.IteratorWithKey[K, string]
}

func (s *keySnap[K]) Len() int        { return len(s.keys) }
func (s *keySnap[K]) At(i int) string { return s.d.Str(s.keys[i]) + ":" + strconv.Quote(s.vals[i]) }
func (s *keySnap[K]) Match(i, p, k int) bool {
	return keyPred(s.d, p, k)(s.keys[i], s.vals[i])
}
func (s *keySnap[K]) New() Cursor {
	it := s.mk()
	if it == nil {
		return nil
	}
	return &keyCursor[K]{d: s.d, it: it}
}

type keyCursor[K comparable] struct {
	d  *Dom[K]
	it containers.IteratorWithKey[K, string]
}

func (c *keyCursor[K]) Pos() string { return c.d.Str(c.it.Key()) + ":" + strconv.Quote(c.it.Value()) }

func (c *keyCursor[K]) Move(name string, p, k int) (bool, bool, bool) {
	rit, rev := c.it.(containers.ReverseIteratorWithKey[K, string])
	switch name {
	case "Next":
		return c.it.Next(), true, true
	case "Begin":
		c.it.Begin()
		return false, false, true
	case "First":
		return c.it.First(), true, true
	case "NextTo":
		return c.it.NextTo(keyPred(c.d, p, k)), true, true
	}
	if !rev {
		return false, false, false
	}
	switch name {
	case "Prev":
		return rit.Prev(), true, true
	case "End":
		rit.End()
		return false, false, true
	case "Last":
		return rit.Last(), true, true
	case "PrevTo":
		return rit.PrevTo(keyPred(c.d, p, k)), true, true
	}
	panic("cursor: unknown move " + name)
}

// ---- snapshots of the five subject families ---------------------------------------------------------------

func (s *listSubj[T]) IterSnapshot() iterSnap {
	return &idxSnap[T]{s.d, s.l.Values(), func() containers.IteratorWithIndex[T] { return listIter(s.l) }}
}
func (s *setSubj[T]) IterSnapshot() iterSnap {
	if setIter(s.s) == nil {
		return nil
	}
	return &idxSnap[T]{s.d, s.s.Values(), func() containers.IteratorWithIndex[T] { return setIter(s.s) }}
}
func (s *sqSubj[T]) IterSnapshot() iterSnap   { return &idxSnap[T]{s.d, s.c.Values(), s.iter} }
func (s *heapSubj[T]) IterSnapshot() iterSnap { return &idxSnap[T]{s.d, s.c.Values(), s.iter} }
func (s *kvSubj[K]) IterSnapshot() iterSnap {
	if s.keyIter() == nil {
		return nil
	}
	keys := s.m.Keys()
	vals := make([]string, len(keys))
	for i, k := range keys {
		vals[i], _ = s.m.Get(k) // the value mapped to Keys()[i] (TreeBidiMap's Values() is ordered by value)
	}
	return &keySnap[K]{s.d, keys, vals, s.keyIter}
}

// ---- model cursor (appendix A.1) -------------------------------------------------------------------------------

type modelCursor struct {
	moves int
	pos   int
	snap  iterSnap
	cur   Cursor
}

// apply performs the move on the model; ret is meaningful when hasRet.
func (m *modelCursor) apply(name string, p, k int) (ret bool, hasRet bool) {
	n := m.snap.Len()
	next := func() bool {
		if m.pos < n {
			m.pos++
		}
		return m.pos >= 0 && m.pos < n
	}
	prev := func() bool {
		if m.pos > -1 {
			m.pos--
		}
		return m.pos >= 0 && m.pos < n
	}
	switch name {
	case "Next":
		return next(), true
	case "Prev":
		return prev(), true
	case "Begin":
		m.pos = -1
		return false, false
	case "End":
		m.pos = n
		return false, false
	case "First":
		m.pos = -1
		return next(), true
	case "Last":
		m.pos = n
		return prev(), true
	case "NextTo":
		for next() {
			if m.snap.Match(m.pos, p, k) {
				return true, true
			}
		}
		return false, true
	case "PrevTo":
		for prev() {
			if m.snap.Match(m.pos, p, k) {
				return true, true
			}
		}
		return false, true
	}
	panic("model cursor: unknown move " + name)
}

var iterKinds = []string{"arraylist", "singlylinkedlist", "doublylinkedlist", "treeset", "linkedhashset", "arraystack", "linkedliststack",
	"arrayqueue", "linkedlistqueue", "circularbuffer", "priorityqueue", "treemap", "linkedhashmap", "treebidimap", "redblacktree", "avltree", "btree", "binaryheap"}

var fwdMoves = []string{"Next", "Next", "Next", "Begin", "First", "NextTo"}
var allMoves = []string{"Next", "Next", "Next", "Prev", "Prev", "Prev", "Begin", "End", "First", "Last", "NextTo", "PrevTo"}

type iterWorld struct{}

func isMove(n string) bool {
	switch n {
	case "Next", "Prev", "Begin", "End", "First", "Last", "NextTo", "PrevTo":
		return true
	}
	return false
}

func (w *iterWorld) Gen(seed uint64, tier string) *Plan {
	r := NewRng(seed)
	cfg := genCfg(r, iterKinds, tier)
	if cfg.Dom > 32 {
		cfg.Dom = 32
	}
	if r.P(1, 4) {
		cfg.Dom = r.Range(2, 4) // empty and single-element states come up often
	}
	if floatOK("C08", cfg.Kind) && r.P(1, 12) {
		useFloat(r, &cfg)
	} else if anyOK("C08", cfg.Kind) && r.P(1, 12) {
		useAny(&cfg)
	}
	p := &Plan{World: "iter", Cfg: cfg}
	attach(p)
	s := makeSubject(cfg, false)
	inert := NewOracle("C08")
	roles := s.(Roler).Roles()
	client := &Client{Role: roles[r.Intn(len(roles))]}
	p.Clients = []string{client.Role}
	id := 0
	phases := r.Range(1, 4)
	if tier == "thorough" {
		phases = r.Range(1, 10)
	}
	if r.P(1, 6) {
		// a larger container shaped by bulk insertion and a burst of removals (trees several levels deep
		// after rebalancing, rings that wrapped many times, lists past their shrink thresholds)
		p.Cfg.Dom = []int{64, 128, 256}[r.Intn(3)]
		cfg = p.Cfg
		s = makeSubject(cfg, false)
		fill := genFill(r, id, 20, 200)
		id++
		func() {
			defer func() { recover() }()
			s.Step(fill, inert)
		}()
		p.Ops = append(p.Ops, fill)
		rem := &Client{Role: r.PickS("remover", "sweep", "shrinker", "consumer", "popper", "churn")}
		for i := r.Range(5, 80); i > 0; i-- {
			op := s.GenOp(r, id, rem)
			id++
			func() {
				defer func() { recover() }()
				s.Step(op, inert)
			}()
			p.Ops = append(p.Ops, op)
		}
	}
	for ph := 0; ph < phases; ph++ {
		nMut := []int{0, 1, 2, 3, 5, 8, 13, 30}[r.Intn(8)]
		for i := 0; i < nMut; i++ {
			op := s.GenOp(r, id, client)
			id++
			func() {
				defer func() { recover() }()
				s.Step(op, inert)
			}()
			p.Ops = append(p.Ops, op)
		}
		// (generation steps the real container; if the library under test misbehaves here, generation
		// stops and the plan built so far is executed, where the misbehaviour is judged)
		var snap iterSnap
		broken := false
		func() {
			defer func() {
				if recover() != nil {
					broken = true
				}
			}()
			snap = s.(IterSubject).IterSnapshot()
		}()
		if broken {
			p.Ops = append(p.Ops, Op{ID: id, N: "NewIter", X: 1, C: 1}, Op{ID: id + 1, N: "Next", X: 1, C: 1})
			return p
		}
		if snap == nil {
			continue
		}
		nIt := r.Range(1, 3)
		models := make([]*modelCursor, nIt)
		for j := range models {
			models[j] = &modelCursor{pos: -1, snap: snap}
			p.Ops = append(p.Ops, Op{ID: id, N: "NewIter", X: j + 1, C: j + 1})
			id++
		}
		canRev := false
		func() {
			defer func() {
				if recover() != nil {
					broken = true
				}
			}()
			_, _, canRev = snap.New().Move("End", 0, 0)
		}()
		if broken {
			return p
		}
		nMoves := r.Range(4, 60)
		for i := 0; i < nMoves; i++ {
			if p.Cfg.Dom <= 32 && r.P(1, 10) {
				// a read-only call on the container between two moves (the container "is not modified meanwhile":
				// Values, String, ToJSON, lookups, walks with other fresh iterators, enumerable functions); the
				// cursors must stay where they are
				rop := s.GenRead(r, id)
				rop.N = "R:" + rop.N
				p.Ops = append(p.Ops, rop)
				id++
				continue
			}
			j := r.Intn(nIt)
			m := models[j]
			moves := fwdMoves
			if canRev {
				moves = allMoves
			}
			name := moves[r.Intn(len(moves))]
			n := snap.Len()
			// bias to reversals at and next to the sentinels
			if canRev && r.P(1, 2) {
				switch {
				case m.pos >= n-1:
					name = r.PickS("Next", "Prev", "Prev", "Next", "End", "Last")
				case m.pos <= 0:
					name = r.PickS("Prev", "Next", "Prev", "Next", "Begin", "First")
				}
			}
			op := Op{ID: id, N: name, X: j + 1, C: j + 1}
			if name == "NextTo" || name == "PrevTo" {
				op.A = []int{r.Intn(nPreds), r.Intn(cfg.Dom)}
			}
			id++
			pp, kk := 0, 0
			if len(op.A) == 2 {
				pp, kk = op.A[0], op.A[1]
			}
			func() {
				defer func() { recover() }()
				m.apply(name, pp, kk)
			}()
			p.Ops = append(p.Ops, op)
		}
	}
	return p
}

func (w *iterWorld) Exec(p *Plan, st *RunStats) *Violation {
	attach(p)
	start := stepCount
	s := makeSubject(p.Cfg, false)
	o := NewOracle("C08", "C08")
	o.Kind = p.Cfg.Kind
	its := map[int]*modelCursor{}
	var snap iterSnap
	reversalsAtSentinel := 0
	for _, op := range p.Ops {
		op := op
		st.Ops++
		switch {
		case op.N == "NewIter":
			safely(o, op, func() {
				if snap == nil {
					snap = s.(IterSubject).IterSnapshot()
				}
				if snap != nil {
					its[op.X] = &modelCursor{pos: -1, snap: snap, cur: snap.New()}
				}
			})
		case isMove(op.N):
			m := its[op.X]
			if m == nil {
				continue // iterator invalidated by a mutation (or its creation was minimised away)
			}
			pp, kk := 0, 0
			if len(op.A) == 2 {
				pp, kk = op.A[0], op.A[1]
			}
			safely(o, op, func() {
				o.cur = op
				before := m.pos
				ret, hasRet, ok := m.cur.Move(op.N, pp, kk)
				if !ok {
					return
				}
				wret, _ := m.apply(op.N, pp, kk)
				n := snap.Len()
				if (before == n && (op.N == "Prev" || op.N == "PrevTo")) || (before == -1 && (op.N == "Next" || op.N == "NextTo") && m.moves > 0) {
					reversalsAtSentinel++
				}
				m.moves++
				if hasRet && ret != wret {
					o.Fail("C08", "move-result", "iterator #%d: %s from position %d of %d elements returned %v, cursor model says %v (new position %d)", op.X, op, before, n, ret, wret, m.pos)
					return
				}
				if m.pos >= 0 && m.pos < n && derive(op.ID, 55, 3) != 0 { // (one move in three is not followed by a read of the accessors)
					if got, want := m.cur.Pos(), snap.At(m.pos); got != want {
						o.Fail("C08", "position-content", "iterator #%d: after %s from position %d the cursor should be at position %d = %s, iterator reports %s", op.X, op, before, m.pos, want, got)
					}
				}
			})
		case strings.HasPrefix(op.N, "R:"):
			rop := op
			rop.N = op.N[2:]
			safely(o, op, func() { o.cur = op; s.DoRead(rop) })
		default:
			// a mutation invalidates every iterator (README: unsafe to modify while iterating)
			its = map[int]*modelCursor{}
			snap = nil
			safely(o, op, func() { s.Step(op, o) })
		}
		if traceOn {
			trace("op %d %s -> %016x", op.ID, op.N, hashStr(s.Obs()))
		}
		if o.Failed() {
			break
		}
	}
	st.Steps = stepCount - start
	st.NonTrivial = reversalsAtSentinel >= 1
	return o.V
}

func init() { _ = fmt.Sprint }

// walkBothWays walks a fresh iterator of the subject forwards over all positions and, where the iterator is
// reversible, backwards from the end, and compares both with the snapshot (Values()/Keys()). It returns a
// description of the first disagreement, or "". Used on containers that were produced by another operation
// (a load, a restart): they must iterate like any other.
func walkBothWays(s Subject) string {
	is, ok := s.(IterSubject)
	if !ok {
		return ""
	}
	snap := is.IterSnapshot()
	if snap == nil {
		return ""
	}
	c := snap.New()
	if c == nil {
		return ""
	}
	n := snap.Len()
	if n > 1200 {
		return "" // (the linked stack's and queue's iterators read by index: a full walk is quadratic)
	}
	i := 0
	for {
		ret, _, _ := c.Move("Next", 0, 0)
		if !ret {
			break
		}
		if i >= n {
			return fmt.Sprintf("the iterator yields more than the %d elements of Values()/Keys()", n)
		}
		if got, want := c.Pos(), snap.At(i); got != want {
			return fmt.Sprintf("forward iteration: element %d is %s, Values()/Keys() say %s", i, got, want)
		}
		i++
	}
	if i != n {
		return fmt.Sprintf("forward iteration stops after %d of %d elements", i, n)
	}
	if _, _, supported := c.Move("End", 0, 0); !supported {
		return ""
	}
	i = n
	for {
		ret, _, _ := c.Move("Prev", 0, 0)
		if !ret {
			break
		}
		i--
		if i < 0 {
			return fmt.Sprintf("backward iteration yields more than the %d elements of Values()/Keys()", n)
		}
		if got, want := c.Pos(), snap.At(i); got != want {
			return fmt.Sprintf("backward iteration: element %d is %s, Values()/Keys() say %s", i, got, want)
		}
	}
	if i != 0 {
		return fmt.Sprintf("backward iteration stops with %d of %d elements to go", i, n)
	}
	return ""
}
