package main

import (
	"bytes"
	"encoding/json"
	"fmt"
	"strings"
)

// Fault kinds of the simulated snapshot store (seam S2): what can happen to the bytes between
// ToJSON and FromJSON. All choices are drawn at plan-generation time; the damaged bytes are part of
// the plan, so replay needs no PRNG.

var byteFaults = []string{"F1-torn-write", "F2-bit-flip", "F3-structural-byte", "F4-drop-span", "F5-duplicate-span", "F6-swap-spans", "F7-append-garbage", "F8-zero-fill"}
var docFaults = []string{"F11-wrong-type-element", "F12-duplicates", "F13-reencode", "F14-partial-struct", "F15-permute", "F16-respelled-key", "F18-null-elements"}

var structuralBytes = []byte("{}[],:\"\\0123456789abcdefntu-+.eE \n")

var wrongKindDocs = []string{"null", "[]", "{}", "0", "\"x\"", "true", "", " ", "[null]", "{\"a\":null}", "[[]]", "[{}]", "nul", "[", "{", "\"", "{\"\":\"\"}", "[0]", "[\"\"]"}

var wrongTypeLiterals = []string{"\"x\"", "1", "null", "{}", "[]", "true", "1e400", "12345678901234567890", "-0", "1.5", "\"\"", "{\"P\":\"x\"}", "[1]", "-1", "\"1\""}

func snap(b []byte, off int, r *Rng) int {
	// snap a span end to a token boundary half the time
	if off < 0 {
		off = 0
	}
	if off > len(b) {
		off = len(b)
	}
	if r.Bool() {
		for off < len(b) && !strings.ContainsRune(",:[]{}", rune(b[off])) {
			off++
		}
	}
	return off
}

func applyByteFault(r *Rng, kind string, b []byte) []byte {
	b = append([]byte(nil), b...)
	n := len(b)
	switch kind {
	case "F1-torn-write":
		return b[:r.Intn(n+1)]
	case "F2-bit-flip":
		if n > 0 {
			b[r.Intn(n)] ^= 1 << uint(r.Intn(8))
		}
	case "F3-structural-byte":
		if n > 0 {
			b[r.Intn(n)] = structuralBytes[r.Intn(len(structuralBytes))]
		}
	case "F4-drop-span":
		if n > 0 {
			i := snap(b, r.Intn(n), r)
			j := snap(b, i+r.Range(1, 8), r)
			b = append(b[:i], b[j:]...)
		}
	case "F5-duplicate-span":
		if n > 0 {
			i := snap(b, r.Intn(n), r)
			j := snap(b, i+r.Range(1, 8), r)
			out := append([]byte(nil), b[:j]...)
			out = append(out, b[i:j]...)
			b = append(out, b[j:]...)
		}
	case "F6-swap-spans":
		if n > 3 {
			i := snap(b, r.Intn(n/2), r)
			j := snap(b, i+r.Range(1, 6), r)
			k := snap(b, j+r.Intn(4), r)
			l := snap(b, k+r.Range(1, 6), r)
			if i <= j && j <= k && k <= l && l <= n {
				out := append([]byte(nil), b[:i]...)
				out = append(out, b[k:l]...)
				out = append(out, b[j:k]...)
				out = append(out, b[i:j]...)
				b = append(out, b[l:]...)
			}
		}
	case "F7-append-garbage":
		switch r.Intn(4) {
		case 0:
			b = append(b, b...) // a second document
		case 1:
			b = append(b, []byte(wrongKindDocs[r.Intn(len(wrongKindDocs))])...)
		case 2:
			for i := r.Range(1, 6); i > 0; i-- {
				b = append(b, byte(r.Intn(256)))
			}
		default:
			b = append(b, ' ', '\n', '\t') // trailing whitespace is still the same document
		}
	case "F8-zero-fill":
		if n > 0 {
			i := r.Intn(n)
			for j := i; j < n && j < i+r.Range(1, 8); j++ {
				b[j] = 0
			}
		}
	}
	return b
}

// splitDoc parses a top-level array or object into raw elements / members (document order).
type member struct {
	key string
	val json.RawMessage
}

func splitDoc(b []byte) (isObj bool, elems []json.RawMessage, members []member, ok bool) {
	switch topKind(b) {
	case "array":
		if json.Unmarshal(b, &elems) != nil {
			return false, nil, nil, false
		}
		return false, elems, nil, true
	case "object":
		dec := json.NewDecoder(bytes.NewReader(b))
		if _, err := dec.Token(); err != nil {
			return false, nil, nil, false
		}
		for dec.More() {
			kt, err := dec.Token()
			if err != nil {
				return false, nil, nil, false
			}
			var raw json.RawMessage
			if dec.Decode(&raw) != nil {
				return false, nil, nil, false
			}
			members = append(members, member{kt.(string), raw})
		}
		return true, nil, members, true
	}
	return false, nil, nil, false
}

func joinDoc(isObj bool, elems []json.RawMessage, members []member) []byte {
	var sb bytes.Buffer
	if isObj {
		sb.WriteByte('{')
		for i, m := range members {
			if i > 0 {
				sb.WriteByte(',')
			}
			sb.Write(mustJSON(m.key))
			sb.WriteByte(':')
			sb.Write(m.val)
		}
		sb.WriteByte('}')
		return sb.Bytes()
	}
	sb.WriteByte('[')
	for i, e := range elems {
		if i > 0 {
			sb.WriteByte(',')
		}
		sb.Write(e)
	}
	sb.WriteByte(']')
	return sb.Bytes()
}

// reencode re-emits a document token by token with seeded whitespace and \u escapes: the result
// denotes exactly the same value (F13).
func reencode(r *Rng, b []byte) []byte {
	if !json.Valid(b) {
		return b
	}
	dec := json.NewDecoder(bytes.NewReader(b))
	dec.UseNumber()
	var out bytes.Buffer
	ws := func() {
		for i := r.Intn(3); i > 0; i-- {
			out.WriteByte(" \n\t\r"[r.Intn(4)])
		}
	}
	str := func(s string) {
		q := mustJSON(s)
		if r.P(1, 2) {
			out.Write(q)
			return
		}
		// escape some ASCII characters as \u00XX
		out.WriteByte('"')
		inner := string(q[1 : len(q)-1])
		for i := 0; i < len(inner); i++ {
			c := inner[i]
			if c == '\\' && i+1 < len(inner) {
				out.WriteByte(c)
				i++
				out.WriteByte(inner[i])
				if inner[i] == 'u' && i+4 < len(inner) {
					out.WriteString(inner[i+1 : i+5])
					i += 4
				}
				continue
			}
			if c < 0x80 && c != '"' && r.P(1, 3) {
				fmt.Fprintf(&out, "\\u%04x", c)
			} else {
				out.WriteByte(c)
			}
		}
		out.WriteByte('"')
	}
	var emit func() bool
	emit = func() bool {
		t, err := dec.Token()
		if err != nil {
			return false
		}
		switch v := t.(type) {
		case json.Delim:
			switch v {
			case '[':
				out.WriteByte('[')
				ws()
				for first := true; dec.More(); first = false {
					if !first {
						out.WriteByte(',')
						ws()
					}
					if !emit() {
						return false
					}
					ws()
				}
				dec.Token()
				out.WriteByte(']')
			case '{':
				out.WriteByte('{')
				ws()
				for first := true; dec.More(); first = false {
					if !first {
						out.WriteByte(',')
						ws()
					}
					kt, err := dec.Token()
					if err != nil {
						return false
					}
					str(kt.(string))
					ws()
					out.WriteByte(':')
					ws()
					if !emit() {
						return false
					}
					ws()
				}
				dec.Token()
				out.WriteByte('}')
			}
		case string:
			str(v)
		case json.Number:
			out.WriteString(v.String())
		case bool:
			fmt.Fprint(&out, v)
		case nil:
			out.WriteString("null")
		}
		return true
	}
	ws()
	if !emit() {
		return b
	}
	ws()
	return out.Bytes()
}

func applyDocFault(r *Rng, kind string, b []byte, elem string, capHint int) []byte {
	if kind == "F13-reencode" {
		return reencode(r, b)
	}
	isObj, elems, members, ok := splitDoc(b)
	if !ok {
		return b
	}
	n := len(elems) + len(members)
	switch kind {
	case "F11-wrong-type-element":
		lit := json.RawMessage(wrongTypeLiterals[r.Intn(len(wrongTypeLiterals))])
		if n == 0 {
			if isObj {
				members = append(members, member{"k", lit})
			} else {
				elems = append(elems, lit)
			}
		} else if isObj {
			i := r.Intn(n)
			if r.P(1, 4) {
				members[i].key = r.PickS("x", "1.5", "", "1e3", " 1", "0x10", "-", "99999999999999999999")
			} else {
				members[i].val = lit
			}
		} else {
			elems[r.Intn(n)] = lit
		}
	case "F12-duplicates":
		if n == 0 {
			return b
		}
		if isObj {
			switch r.Intn(3) {
			case 0: // a repeated key with another value
				i := r.Intn(n)
				members = append(members, member{members[i].key, members[r.Intn(n)].val})
			case 1: // several keys with one value
				v := members[r.Intn(n)].val
				for i := range members {
					if r.Bool() {
						members[i].val = v
					}
				}
			default: // repeated key right next to the original
				i := r.Intn(n)
				members = append(members[:i+1], append([]member{members[i]}, members[i+1:]...)...)
			}
		} else {
			reps := r.Range(1, 3)
			if capHint > 0 && r.Bool() {
				reps = capHint + r.Range(0, 3) // longer than the ring's capacity
			}
			for i := 0; i < reps; i++ {
				elems = append(elems, elems[r.Intn(n)])
			}
		}
	case "F15-permute": // the same elements / members in another order (a different document for the ordered kinds)
		for i := len(elems) - 1; i > 0; i-- {
			j := r.Intn(i + 1)
			elems[i], elems[j] = elems[j], elems[i]
		}
		for i := len(members) - 1; i > 0; i-- {
			j := r.Intn(i + 1)
			members[i], members[j] = members[j], members[i]
		}
	case "F16-respelled-key": // a second member whose name is another spelling of a present key ("01" and "1" are one int key)
		if !isObj || n == 0 {
			return b
		}
		i := r.Intn(n)
		k := members[i].key
		switch {
		case k == "0":
			k = r.PickS("-0", "00", "+0")
		case strings.HasPrefix(k, "-"):
			k = "-0" + k[1:]
		case r.Bool():
			k = "0" + k
		default:
			k = "+" + k
		}
		m := member{k, members[r.Intn(n)].val}
		at := r.Intn(n + 1)
		members = append(members[:at], append([]member{m}, members[at:]...)...)
	case "F18-null-elements": // some elements / member values are null: a legal document, null denotes the zero value
		if n == 0 {
			return b
		}
		hit := false
		for i := range elems {
			if r.Bool() {
				elems[i], hit = json.RawMessage("null"), true
			}
		}
		for i := range members {
			if r.Bool() {
				members[i].val, hit = json.RawMessage("null"), true
			}
		}
		if !hit {
			if isObj {
				members[r.Intn(n)].val = json.RawMessage("null")
			} else {
				elems[r.Intn(n)] = json.RawMessage("null")
			}
		}
	case "F14-partial-struct":
		if isObj || elem != "item" {
			return b
		}
		part := json.RawMessage(r.PickS("{}", "{\"P\":7}", "{\"ID\":9}", "{\"p\":3}", "{\"P\":1,\"X\":2}"))
		if n == 0 {
			elems = append(elems, part)
		} else {
			elems[r.Intn(n)] = part
		}
	}
	return joinDoc(isObj, elems, members)
}

// applyLateTypeFault replaces one element (member value) other than the first by a literal of another JSON type
// (a string where the document has numbers or objects, a number where it has strings): the document stays
// well-formed, the elements before the damaged one are good.
func applyLateTypeFault(r *Rng, b []byte) []byte {
	isObj, elems, members, ok := splitDoc(b)
	if !ok {
		return b
	}
	n := len(elems) + len(members)
	if n == 0 {
		return b
	}
	i := 0
	if n > 1 {
		i = 1 + r.Intn(n-1)
	}
	other := func(v json.RawMessage) json.RawMessage {
		if len(v) > 0 && v[0] == '"' {
			return json.RawMessage("17")
		}
		return json.RawMessage("\"high\"")
	}
	if isObj {
		members[i].val = other(members[i].val)
	} else {
		elems[i] = other(elems[i])
	}
	return joinDoc(isObj, elems, members)
}
