package main

import (
	"fmt"
	"slices"
	"strconv"
	"strings"

	"github.com/emirpasic/gods/v2/containers"
	"github.com/emirpasic/gods/v2/maps"
	"github.com/emirpasic/gods/v2/maps/linkedhashmap"
	"github.com/emirpasic/gods/v2/maps/treebidimap"
	"github.com/emirpasic/gods/v2/maps/treemap"
	"github.com/emirpasic/gods/v2/trees/avltree"
	"github.com/emirpasic/gods/v2/trees/btree"
	"github.com/emirpasic/gods/v2/trees/redblacktree"
)

// ---- loads (C11/C12) -------------------------------------------------------------------------------

func (s *kvSubj[K]) identityClasses() bool {
	id := map[string]bool{"nat": true, "rev": true, "natbig": true, "diff": true, "ext": true, "total": true}
	idK := !kvHasCmp(s.cfg.Kind) || id[s.d.CmpName]
	idV := s.cfg.Kind != "treebidimap" || id[s.vd.CmpName]
	return idK && idV
}

// loadD is what the last reference decode produced (distinct keys, member order).
func (s *kvSubj[K]) LoadModel(b []byte) bool {
	d, ok := refDecodeObject[K](b)
	if !ok {
		return false
	}
	s.ents = nil
	for _, e := range d {
		s.modelPut(e.k, e.v) // one legal order: member order
	}
	s.loadD = d
	return true
}

func (s *kvSubj[K]) CheckLoaded(o *Oracle, tag string) {
	keys := s.m.Keys()
	d := s.loadD
	inD := func(k K, v string) bool {
		for _, e := range d {
			if e.k == k && e.v == v {
				return true
			}
		}
		return false
	}
	// every pair the container now holds must be a pair of the input
	var got []kvEnt[K]
	for _, k := range keys {
		v, ok := s.m.Get(k)
		if !ok {
			o.Fail(tag, "loaded-get", "after %s: key %s is listed by Keys() but Get reports absent", o.cur, s.d.Str(k))
			return
		}
		if !inD(k, v) {
			o.Fail(tag, "loaded-foreign-pair", "after %s: container holds (%s,%q) which the input does not denote (prior content or stale field?); input pairs %v", o.cur, s.d.Str(k), v, mapS(d, func(e kvEnt[K]) string { return s.d.Str(e.k) + ":" + strconv.Quote(e.v) }))
			return
		}
		got = append(got, kvEnt[K]{k, v})
	}
	if s.identityClasses() {
		if kvIsBidi(s.cfg.Kind) {
			// exactly one key per distinct value of the input
			vals := map[string]int{}
			for _, e := range d {
				vals[e.v] = 0
			}
			for _, e := range got {
				vals[e.v]++
			}
			for v, n := range vals {
				if n != 1 {
					o.Fail(tag, "loaded-bijection", "after %s: value %q of the input is held by %d keys", o.cur, v, n)
					return
				}
			}
		} else if len(got) != len(d) {
			o.Fail(tag, "loaded-content", "after %s: container has %d pairs, input denotes %d", o.cur, len(got), len(d))
			return
		}
	} else {
		// coarsened comparators: one pair per class, any member of the class may have won
		kc := map[string]bool{}
		for _, e := range d {
			kc[s.kclass(e.k)] = true
		}
		gc := map[string]bool{}
		for _, e := range got {
			if gc[s.kclass(e.k)] {
				o.Fail(tag, "loaded-duplicate-class", "after %s: two keys of class %s", o.cur, s.kclass(e.k))
				return
			}
			gc[s.kclass(e.k)] = true
		}
		if !kvIsBidi(s.cfg.Kind) && len(gc) != len(kc) {
			o.Fail(tag, "loaded-content", "after %s: container has %d key classes, input denotes %d", o.cur, len(gc), len(kc))
			return
		}
		if len(d) > 0 && len(got) == 0 {
			o.Fail(tag, "loaded-content", "after %s: container is empty, input denotes %d pairs", o.cur, len(d))
			return
		}
	}
	// LinkedHashMap: keys in member order
	if s.cfg.Kind == "linkedhashmap" {
		want := mapS(d, func(e kvEnt[K]) string { return s.d.Str(e.k) })
		g := mapS(got, func(e kvEnt[K]) string { return s.d.Str(e.k) })
		if !slices.Equal(g, want) {
			o.Fail(tag, "loaded-order", "after %s: keys %v, member order of the input %v", o.cur, g, want)
			return
		}
	}
	// re-synchronise the model with the legal choice the container made, then the ordinary
	// model comparison must hold
	s.ents = got
	if g, w := s.Obs(), s.ModelObs(); g != w {
		o.Fail(tag, "loaded-observers", "after %s: observers disagree with the loaded content: %s vs %s", o.cur, g, w)
	}
}

// ---- enumerables ---------------------------------------------------------------------------------------

type keyEnumA[K comparable] struct {
	containers.EnumerableWithKey[K, string]
	Select func(f func(K, string) bool) maps.Map[K, string]
	Map    func(f func(K, string) (K, string)) maps.Map[K, string]
}

func (s *kvSubj[K]) enum() *keyEnumA[K] {
	switch t := s.m.(type) {
	case *treemap.Map[K, string]:
		return &keyEnumA[K]{t, func(f func(K, string) bool) maps.Map[K, string] { return t.Select(f) },
			func(f func(K, string) (K, string)) maps.Map[K, string] { return t.Map(f) }}
	case *linkedhashmap.Map[K, string]:
		return &keyEnumA[K]{t, func(f func(K, string) bool) maps.Map[K, string] { return t.Select(f) },
			func(f func(K, string) (K, string)) maps.Map[K, string] { return t.Map(f) }}
	case *treebidimap.Map[K, string]:
		return &keyEnumA[K]{t, func(f func(K, string) bool) maps.Map[K, string] { return t.Select(f) },
			func(f func(K, string) (K, string)) maps.Map[K, string] { return t.Map(f) }}
	}
	return nil
}

// ---- read-only catalogue (C18) -----------------------------------------------------------------------------

var kvReads = []string{"Get", "Get", "Nodes", "GetKey", "Size", "Empty", "Keys", "Values", "String", "ToJSON", "MarshalJSON", "Floor", "Ceiling", "Min", "Max", "Height",
	"Walk", "WalkBack", "NextTo", "Each", "Any", "All", "Find", "Select", "Map", "Sorted"}

func (s *kvSubj[K]) GenRead(r *Rng, id int) Op {
	n := kvReads[r.Intn(len(kvReads))]
	return Op{ID: id, N: n, A: []int{r.Intn(len(s.d.Tab) + len(s.d.Probes)), r.Intn(len(s.vd.Tab)), r.Intn(11)}}
}

func (s *kvSubj[K]) anyKey(i int) K {
	if i < len(s.d.Tab) {
		return s.d.Tab[i]
	}
	return s.d.Probes[(i-len(s.d.Tab))%len(s.d.Probes)]
}

func (s *kvSubj[K]) canonList(xs []string) string {
	if kvDiscipline(s.cfg.Kind) == "hash" {
		xs = sortedStrings(xs)
	}
	return bracket(xs)
}

func (s *kvSubj[K]) DoRead(op Op) string {
	a := op.A
	d := s.d
	var sb strings.Builder
	item := func(k K, v string) { sb.WriteString(d.Str(k) + ":" + strconv.Quote(v) + " ") }
	switch op.N {
	case "Get":
		v, ok := s.m.Get(s.anyKey(a[0]))
		return fmt.Sprintf("%q,%v", v, ok)
	case "GetKey":
		bm, ok := s.m.(maps.BidiMap[K, string])
		if !ok {
			return "n/a"
		}
		k, f := bm.GetKey(s.vd.At(a[1]))
		return fmt.Sprintf("%s,%v", d.Str(k), f)
	case "Nodes":
		return s.nodes(s.anyKey(a[0]))
	case "Size":
		return strconv.Itoa(s.m.Size())
	case "Empty":
		return strconv.FormatBool(s.m.Empty())
	case "Keys":
		return s.canonList(mapS(s.m.Keys(), d.Str))
	case "Values":
		return s.canonList(mapS(s.m.Values(), strconv.Quote))
	case "String":
		if kvDiscipline(s.cfg.Kind) == "hash" {
			return strconv.Itoa(len(s.m.String())) // fmt prints Go maps sorted, but keep it order-free
		}
		return s.m.String()
	case "ToJSON":
		return jsonText(s.IO())
	case "MarshalJSON":
		b, err := s.IO().MarshalJSON()
		return string(b) + fmtErr(err)
	case "Sorted":
		return bracket(mapS(containers.GetSortedValues[string](s.m), strconv.Quote))
	case "Height":
		if t, ok := s.m.(*btree.Tree[K, string]); ok {
			return strconv.Itoa(t.Height())
		}
		return "n/a"
	case "Floor", "Ceiling", "Min", "Max":
		nav := s.nav()
		if nav == nil {
			return "n/a"
		}
		var k K
		var v string
		var ok bool
		switch op.N {
		case "Min":
			k, v, ok = nav.min()
		case "Max":
			k, v, ok = nav.max()
		case "Floor":
			if nav.floor == nil {
				return "n/a"
			}
			k, v, ok = nav.floor(s.anyKey(a[0]))
		case "Ceiling":
			if nav.ceiling == nil {
				return "n/a"
			}
			k, v, ok = nav.ceiling(s.anyKey(a[0]))
		}
		return fmt.Sprintf("%s,%q,%v", d.Str(k), v, ok)
	case "Walk":
		it := s.keyIter()
		if it == nil {
			return "n/a"
		}
		for it.Next() {
			item(it.Key(), it.Value())
		}
		if it.First() {
			item(it.Key(), it.Value())
		}
	case "WalkBack":
		rit, ok := s.keyIter().(containers.ReverseIteratorWithKey[K, string])
		if !ok || s.keyIter() == nil {
			return "n/a"
		}
		rit.End()
		for rit.Prev() {
			item(rit.Key(), rit.Value())
		}
		if rit.Last() {
			item(rit.Key(), rit.Value())
		}
	case "NextTo":
		it := s.keyIter()
		if it == nil {
			return "n/a"
		}
		f := keyPred(d, a[2], a[0])
		for it.NextTo(f) {
			item(it.Key(), it.Value())
		}
		if rit, ok := it.(containers.ReverseIteratorWithKey[K, string]); ok {
			for rit.PrevTo(f) {
				item(rit.Key(), rit.Value())
			}
		}
	case "Each", "Any", "All", "Find", "Select", "Map":
		en := s.enum()
		if en == nil {
			return "n/a"
		}
		switch op.N {
		case "Each":
			en.Each(item)
		case "Any":
			return fmt.Sprint(en.Any(keyPred(d, a[2], a[0])))
		case "All":
			return fmt.Sprint(en.All(keyPred(d, a[2], a[0])))
		case "Find":
			k, v := en.Find(keyPred(d, a[2], a[0]))
			item(k, v)
		case "Select":
			r := en.Select(keyPred(d, a[2], a[0]))
			return bracket(mapS(r.Keys(), d.Str)) + bracket(mapS(r.Values(), strconv.Quote))
		case "Map":
			r := en.Map(keyMap(d, s.vd.Tab, a[2], a[0]))
			return bracket(mapS(r.Keys(), d.Str)) + bracket(mapS(r.Values(), strconv.Quote))
		}
	default:
		panic("kv: unknown read op " + op.N)
	}
	return sb.String()
}

// ---- hostile catalogue (C17) -----------------------------------------------------------------------------------

func (s *kvSubj[K]) GenHostile(r *Rng, id int) Op {
	names := []string{"Put", "Put", "Put", "Remove", "Remove", "Clear", "Get", "GetKey", "Keys", "Values", "String", "ToJSON", "Nav", "Nodes", "Iter", "Enum", "Sorted", "Size"}
	n := names[r.Intn(len(names))]
	return Op{ID: id, N: n, A: []int{r.Intn(len(s.d.Tab) + len(s.d.Probes)), r.Intn(len(s.vd.Tab)), r.Intn(1 << 20)}}
}

func (s *kvSubj[K]) DoHostile(op Op) {
	a := op.A
	k := s.anyKey(a[0])
	switch op.N {
	case "Put":
		if s.m.Size() <= hostileMaxSize {
			s.m.Put(k, s.vd.At(a[1]))
		}
	case "Remove":
		s.m.Remove(k)
	case "Clear":
		s.m.Clear()
	case "Get":
		s.m.Get(k)
	case "GetKey":
		if bm, ok := s.m.(maps.BidiMap[K, string]); ok {
			bm.GetKey(s.vd.At(a[1]))
			bm.GetKey("never-a-value")
		}
	case "Keys":
		s.m.Keys()
	case "Values":
		s.m.Values()
	case "String":
		_ = s.m.String()
	case "ToJSON":
		s.IO().ToJSON()
		s.IO().MarshalJSON()
	case "Size":
		s.m.Size()
		s.m.Empty()
	case "Sorted":
		containers.GetSortedValues[string](s.m)
	case "Nodes":
		s.nodes(k)
	case "Nav":
		if nav := s.nav(); nav != nil {
			nav.min()
			nav.max()
			if nav.floor != nil {
				nav.floor(k)
				nav.ceiling(k)
			}
		}
		if t, ok := s.m.(*btree.Tree[K, string]); ok {
			t.Height()
			t.GetNode(k)
			t.Left()
			t.Right()
		}
	case "Iter":
		if it := s.keyIter(); it != nil {
			hostileKeyIter[K, string](it, a[2])
		}
	case "Enum":
		if en := s.enum(); en != nil {
			p, kk := a[2]%nPreds, a[2]/8
			en.Each(func(K, string) {})
			en.Any(keyPred(s.d, p, kk))
			en.All(keyPred(s.d, p, kk))
			en.Find(keyPred(s.d, p, kk))
			en.Select(keyPred(s.d, p, kk))
			en.Map(keyMap(s.d, s.vd.Tab, a[2]%nMaps, kk))
		}
	}
}

// EncodeModel writes the live pairs as a JSON object in model (insertion) order; keys are encoded
// the way encoding/json encodes map keys (integers quoted).
func (s *kvSubj[K]) EncodeModel() []byte {
	var sb strings.Builder
	sb.WriteByte('{')
	for i, e := range s.ents {
		if i > 0 {
			sb.WriteByte(',')
		}
		sb.Write(mustJSON(fmt.Sprint(e.k)))
		sb.WriteByte(':')
		sb.Write(mustJSON(e.v))
	}
	sb.WriteByte('}')
	return []byte(sb.String())
}
func (s *kvSubj[K]) AdoptModel(from Subject) { s.ents = slices.Clone(from.(*kvSubj[K]).ents) }

// nodes exercises the less used exported node-level API for key k and returns a canonical rendering:
// GetNode, Node.Size/String, AVL Node.Prev/Next, red-black IteratorAt, iterator Node(), B-tree
// Entry.String and LeftValue/RightValue.
func (s *kvSubj[K]) nodes(k K) string {
	d := s.d
	var sb strings.Builder
	switch t := s.m.(type) {
	case *redblacktree.Tree[K, string]:
		n := t.GetNode(k)
		if n == nil {
			return "nil"
		}
		fmt.Fprintf(&sb, "node=%s:%q str=%s size=%d rootsize=%d ", d.Str(n.Key), n.Value, n.String(), n.Size(), t.Root.Size())
		it := t.IteratorAt(n)
		fmt.Fprintf(&sb, "at=%s ", d.Str(it.Key()))
		for i := 0; i < 3 && it.Next(); i++ {
			fmt.Fprintf(&sb, ">%s(%v) ", d.Str(it.Key()), it.Node() != nil)
		}
		it = t.IteratorAt(n)
		for i := 0; i < 3 && it.Prev(); i++ {
			fmt.Fprintf(&sb, "<%s ", d.Str(it.Key()))
		}
	case *avltree.Tree[K, string]:
		n := t.GetNode(k)
		if n == nil {
			return "nil"
		}
		fmt.Fprintf(&sb, "node=%s:%q str=%s size=%d rootsize=%d ", d.Str(n.Key), n.Value, n.String(), n.Size(), t.Root.Size())
		for i, x := 0, n.Next(); i < 3 && x != nil; i, x = i+1, x.Next() {
			fmt.Fprintf(&sb, ">%s ", d.Str(x.Key))
		}
		for i, x := 0, n.Prev(); i < 3 && x != nil; i, x = i+1, x.Prev() {
			fmt.Fprintf(&sb, "<%s ", d.Str(x.Key))
		}
		it := t.Iterator()
		if it.Next() {
			fmt.Fprintf(&sb, "first=%s(%v) ", d.Str(it.Key()), it.Node() != nil)
		}
	case *btree.Tree[K, string]:
		n := t.GetNode(k)
		if n == nil {
			return "nil"
		}
		fmt.Fprintf(&sb, "entries=%d nodes=%d rootnodes=%d ", len(n.Entries), n.Size(), t.Root.Size())
		for _, e := range n.Entries {
			sb.WriteString(e.String() + ",")
		}
		fmt.Fprintf(&sb, " lv=%v rv=%v", t.LeftValue(), t.RightValue())
		it := t.Iterator()
		if it.Next() {
			fmt.Fprintf(&sb, " first=%s(%v)", d.Str(it.Key()), it.Node() != nil)
		}
	default:
		return "n/a"
	}
	return sb.String()
}
