package main

import (
	"fmt"
	"slices"
	"strconv"

	"github.com/emirpasic/gods/v2/containers"
	"github.com/emirpasic/gods/v2/queues/arrayqueue"
	"github.com/emirpasic/gods/v2/queues/circularbuffer"
	"github.com/emirpasic/gods/v2/queues/linkedlistqueue"
	"github.com/emirpasic/gods/v2/stacks/arraystack"
	"github.com/emirpasic/gods/v2/stacks/linkedliststack"
)

var sqKinds = []string{"arraystack", "linkedliststack", "arrayqueue", "linkedlistqueue", "circularbuffer"}
var sqNames = map[string]string{"arraystack": "ArrayStack", "linkedliststack": "LinkedListStack", "arrayqueue": "ArrayQueue",
	"linkedlistqueue": "LinkedListQueue", "circularbuffer": "CircularBuffer"}

// sqReal is the common shape of stacks and queues (Push/Enqueue and Pop/Dequeue are unified by
// the adapter below).
type sqReal[T any] interface {
	containers.Container[T]
	Peek() (T, bool)
}

type sqSubj[T comparable] struct {
	cfg  Cfg
	d    *Dom[T]
	c    sqReal[T]
	put  func(T)
	take func() (T, bool)
	m    []T // model in removal order: m[0] is removed next
	lifo bool
}

func newSQSubj[T comparable](cfg Cfg, d *Dom[T]) *sqSubj[T] {
	s := &sqSubj[T]{cfg: cfg, d: d}
	switch cfg.Kind {
	case "arraystack":
		c := arraystack.New[T]()
		s.c, s.put, s.take, s.lifo = c, c.Push, c.Pop, true
	case "linkedliststack":
		c := linkedliststack.New[T]()
		s.c, s.put, s.take, s.lifo = c, c.Push, c.Pop, true
	case "arrayqueue":
		c := arrayqueue.New[T]()
		s.c, s.put, s.take = c, c.Enqueue, c.Dequeue
	case "linkedlistqueue":
		c := linkedlistqueue.New[T]()
		s.c, s.put, s.take = c, c.Enqueue, c.Dequeue
	case "circularbuffer":
		c := circularbuffer.New[T](cfg.Cap)
		s.c, s.put, s.take = c, c.Enqueue, c.Dequeue
	default:
		panic("unknown stack/queue kind " + cfg.Kind)
	}
	return s
}

func (s *sqSubj[T]) Kind() string { return s.cfg.Kind }
func (s *sqSubj[T]) Family() string {
	if s.lifo {
		return "stack"
	}
	return "queue"
}
func (s *sqSubj[T]) Config() Cfg    { return s.cfg }
func (s *sqSubj[T]) Real() any      { return s.c }
func (s *sqSubj[T]) IO() jsonIO     { return s.c.(jsonIO) }
func (s *sqSubj[T]) ModelSize() int { return len(s.m) }
func (s *sqSubj[T]) Fresh() Subject { return newSQSubj(s.cfg, s.d) }
func (s *sqSubj[T]) ring() bool     { return s.cfg.Kind == "circularbuffer" }

var sqRoles = []string{"mixed", "producer", "consumer", "peeker", "clearer", "burst"}

func (s *sqSubj[T]) Roles() []string { return sqRoles }

func (s *sqSubj[T]) GenOp(r *Rng, id int, c *Client) Op {
	dom := len(s.d.Tab)
	w := []int{10, 8, 3, 1}
	switch c.Role {
	case "producer":
		w = []int{10, 1, 1, 0}
	case "consumer":
		w = []int{2, 10, 1, 0}
	case "peeker":
		w = []int{3, 3, 10, 0}
	case "clearer":
		w = []int{8, 2, 1, 3}
	case "burst": // fill beyond capacity, then drain completely
		c.Cursor++
		period := 2*max(s.cfg.Cap, 3) + 3
		if c.Cursor%period < period/2+1 {
			w = []int{10, 0, 1, 0}
		} else {
			w = []int{0, 10, 1, 0}
		}
	}
	switch r.Weighted(w...) {
	case 0:
		return Op{ID: id, N: "Put", A: []int{r.Intn(dom)}}
	case 1:
		return Op{ID: id, N: "Take"}
	case 2:
		return Op{ID: id, N: "Peek"}
	}
	return Op{ID: id, N: "Clear"}
}

func (s *sqSubj[T]) modelPut(v T) {
	if s.lifo {
		s.m = append([]T{v}, s.m...)
		return
	}
	s.m = append(slices.Clone(s.m), v)
	if s.ring() && len(s.m) > s.cfg.Cap {
		s.m = s.m[len(s.m)-s.cfg.Cap:] // enqueuing into a full buffer discards exactly the oldest
	}
}

func (s *sqSubj[T]) ModelApply(op Op) {
	switch op.N {
	case "Put":
		s.modelPut(s.d.At(op.A[0]))
	case "Take":
		if len(s.m) > 0 {
			s.m = slices.Clone(s.m[1:])
		}
	case "Peek", "Churn": // (Churn: Step applies its put/take pairs to the model one by one)
	case "Clear":
		s.m = nil
	case "Shrink": // remove (in removal order) until op.A[0] elements are left
		if len(s.m) > op.A[0] {
			s.m = slices.Clone(s.m[len(s.m)-op.A[0]:])
		}
	case "Fill":
		idx := fillIdx(op.A)
		vs := make([]T, len(idx))
		for j, i := range idx {
			vs[j] = s.d.At(i)
		}
		switch {
		case s.lifo:
			slices.Reverse(vs)
			s.m = append(vs, s.m...)
		case s.ring():
			m := append(slices.Clone(s.m), vs...)
			if len(m) > s.cfg.Cap {
				m = m[len(m)-s.cfg.Cap:]
			}
			s.m = m
		default:
			s.m = append(slices.Clone(s.m), vs...)
		}
	default:
		panic("sq model: unknown op " + op.N)
	}
}

func (s *sqSubj[T]) Step(op Op, o *Oracle) {
	o.cur = op
	o.Kind = s.cfg.Kind
	var zero T
	switch op.N {
	case "Put":
		s.put(s.d.At(op.A[0]))
	case "Take", "Peek":
		var v T
		var ok bool
		if op.N == "Take" {
			v, ok = s.take()
		} else {
			v, ok = s.c.Peek()
		}
		wv, wok := zero, len(s.m) > 0
		if wok {
			wv = s.m[0]
		}
		if o.On("C05") && (ok != wok || !sameElem(s.d, v, wv)) {
			o.Fail("C05", "removal-order", "%s returned (%s,%v), want (%s,%v); model (removal order) %s", op.N, s.d.Str(v), ok, s.d.Str(wv), wok, joinS(s.m, s.d.Str))
		}
	case "Clear":
		s.c.Clear()
	case "Churn": // op.A[0] put/take pairs: nothing but the counters a container may keep grows
		for i := 0; i < op.A[0]; i++ {
			x := s.d.At((op.A[1] + i) % len(s.d.Tab))
			s.put(x)
			s.modelPut(x)
			v, ok := s.take()
			if len(s.m) == 0 || !ok || !sameElem(s.d, v, s.m[0]) {
				if o.On("C05") {
					o.Fail("C05", "removal-order", "pair %d of a long run of put/take pairs: take returned (%s,%v), model (removal order) %s", i, s.d.Str(v), ok, joinS(s.m, s.d.Str))
				}
				break
			}
			s.m = slices.Clone(s.m[1:])
			if i%512 == 0 {
				opSteps = 0
			}
		}
	case "Shrink":
		for n := len(s.m); n > op.A[0]; n-- {
			s.take()
		}
	case "Fill":
		for _, i := range fillIdx(op.A) {
			s.put(s.d.At(i))
		}
	default:
		panic("sq: unknown op " + op.N)
	}
	s.ModelApply(op)
	s.check(o)
}

func (s *sqSubj[T]) check(o *Oracle) {
	if o.Sparse {
		return
	}
	if len(o.Active) == 0 {
		return // C18 write phases: no observer may run on the container (it would warm lazily built state)
	}
	if derive(o.cur.ID, 91, 2) == 1 && o.On("C05") { // (observer order varies, see listSubj.check)
		v, ok := s.c.Peek()
		if ok != (len(s.m) > 0) || (ok && !sameElem(s.d, v, s.m[0])) {
			o.Fail("C05", "peek", "after %s (asked before Values()): Peek()=(%s,%v), model %s", o.cur, s.d.Str(v), ok, joinS(s.m, s.d.Str))
		}
		if got := s.c.Size(); got != len(s.m) {
			o.Fail("C05", "size", "after %s (asked before Values()): Size()=%d, want %d", o.cur, got, len(s.m))
		}
	}
	vals := s.c.Values()
	if o.On("C05") || o.On("C16") {
		tag := "C05"
		if !o.On("C05") {
			tag = "C16"
		}
		if !sameSeq(s.d, vals, s.m) {
			o.Fail(tag, "values", "after %s: Values()=%s, want (removal order) %s", o.cur, joinS(vals, s.d.Str), joinS(s.m, s.d.Str))
		}
		if got := s.c.Size(); got != len(s.m) {
			o.Fail(tag, "size", "after %s: Size()=%d, want %d", o.cur, got, len(s.m))
		}
		v, ok := s.c.Peek()
		if ok != (len(s.m) > 0) || (ok && !sameElem(s.d, v, s.m[0])) {
			o.Fail(tag, "peek", "after %s: Peek()=(%s,%v), model %s", o.cur, s.d.Str(v), ok, joinS(s.m, s.d.Str))
		}
		if rb, isRing := s.c.(*circularbuffer.Queue[T]); isRing {
			if got, want := rb.Full(), len(s.m) == s.cfg.Cap; got != want {
				o.Fail(tag, "ring-full", "after %s: Full()=%v with Size()=%d capacity %d", o.cur, got, rb.Size(), s.cfg.Cap)
			}
		}
	}
	checkC15(o, s.c, len(vals), -1, sqNames[s.cfg.Kind])
}

func (s *sqSubj[T]) Obs() string {
	v, ok := s.c.Peek()
	str := fmt.Sprintf("size=%d empty=%v peek=%s,%v values=%s", s.c.Size(), s.c.Empty(), s.d.Str(v), ok, joinS(s.c.Values(), s.d.Str))
	if rb, isRing := s.c.(*circularbuffer.Queue[T]); isRing {
		str += fmt.Sprintf(" full=%v", rb.Full())
	}
	return str
}

func (s *sqSubj[T]) ObsJSON() string { return s.Obs() + " json=" + jsonText(s.IO()) }

func (s *sqSubj[T]) ModelObs() string {
	var v T
	if len(s.m) > 0 {
		v = s.m[0]
	}
	str := fmt.Sprintf("size=%d empty=%v peek=%s,%v values=%s", len(s.m), len(s.m) == 0, s.d.Str(v), len(s.m) > 0, joinS(s.m, s.d.Str))
	if s.ring() {
		str += fmt.Sprintf(" full=%v", len(s.m) == s.cfg.Cap)
	}
	return str
}

// stackOrientation reports whether this stack kind writes its JSON array top-first; calibrated by
// pushing two distinct values into a scratch instance and reading ToJSON (not hard-coded).
func (s *sqSubj[T]) jsonTopFirst() bool {
	f := newSQSubj(s.cfg, s.d)
	a, b := s.d.Tab[0], s.d.Tab[1%len(s.d.Tab)]
	f.put(a)
	f.put(b)
	doc, err := f.IO().ToJSON()
	xs, ok := refDecodeSlice[T](doc)
	if err != nil || !ok || len(xs) != 2 {
		return true
	}
	return xs[0] == b
}

func (s *sqSubj[T]) LoadModel(b []byte) bool {
	xs, ok := refDecodeSlice[T](b)
	if !ok {
		return false
	}
	switch {
	case s.lifo:
		s.m = slices.Clone(xs)
		if !s.jsonTopFirst() {
			slices.Reverse(s.m)
		}
	case s.ring():
		if len(xs) > s.cfg.Cap {
			xs = xs[len(xs)-s.cfg.Cap:]
		}
		s.m = slices.Clone(xs)
	default:
		s.m = xs
	}
	return true
}

func (s *sqSubj[T]) CheckLoaded(o *Oracle, tag string) {
	if got, want := s.Obs(), s.ModelObs(); got != want {
		o.Fail(tag, "loaded-content", "after %s: container %s, input denotes %s", o.cur, got, want)
	}
}

func (s *sqSubj[T]) Drain() string {
	var out []T
	for i := 0; i <= hostileMaxSize*64; i++ {
		v, ok := s.take()
		if !ok {
			break
		}
		out = append(out, v)
	}
	s.m = nil
	return joinS(out, s.d.Str)
}

func (s *sqSubj[T]) iter() containers.IteratorWithIndex[T] {
	switch c := s.c.(type) {
	case *arraystack.Stack[T]:
		return c.Iterator()
	case *linkedliststack.Stack[T]:
		return c.Iterator()
	case *arrayqueue.Queue[T]:
		return c.Iterator()
	case *linkedlistqueue.Queue[T]:
		return c.Iterator()
	case *circularbuffer.Queue[T]:
		return c.Iterator()
	}
	return nil
}

var sqReads = []string{"Peek", "Peek", "Size", "Empty", "Values", "String", "ToJSON", "MarshalJSON", "Walk", "WalkBack", "NextTo", "Sorted", "Full"}

func (s *sqSubj[T]) GenRead(r *Rng, id int) Op {
	n := sqReads[r.Intn(len(sqReads))]
	return Op{ID: id, N: n, A: []int{0, r.Intn(len(s.d.Tab)), r.Intn(7)}}
}

func (s *sqSubj[T]) DoRead(op Op) string {
	switch op.N {
	case "Peek":
		v, ok := s.c.Peek()
		return fmt.Sprintf("%s,%v", s.d.Str(v), ok)
	case "Size":
		return strconv.Itoa(s.c.Size())
	case "Empty":
		return strconv.FormatBool(s.c.Empty())
	case "Values":
		return joinS(s.c.Values(), s.d.Str)
	case "String":
		return s.c.String()
	case "ToJSON":
		return jsonText(s.IO())
	case "MarshalJSON":
		b, err := s.IO().MarshalJSON()
		return string(b) + fmtErr(err)
	case "Sorted":
		return joinS(containers.GetSortedValuesFunc[T](s.c, s.d.Cmp), s.d.Class)
	case "Full":
		if rb, ok := s.c.(*circularbuffer.Queue[T]); ok {
			return strconv.FormatBool(rb.Full())
		}
		return "n/a"
	}
	return readIdx[T](op, s.d, s.iter, nil)
}

func (s *sqSubj[T]) GenHostile(r *Rng, id int) Op {
	names := []string{"Put", "Put", "Put", "Take", "Take", "Peek", "Clear", "Values", "String", "ToJSON", "Iter", "Sorted", "Size"}
	return Op{ID: id, N: names[r.Intn(len(names))], A: []int{r.Intn(len(s.d.Tab)), r.Intn(1 << 20)}}
}

func (s *sqSubj[T]) DoHostile(op Op) {
	switch op.N {
	case "Put":
		if s.c.Size() <= hostileMaxSize {
			s.put(s.d.At(op.A[0]))
		}
	case "Take":
		s.take()
	case "Peek":
		s.c.Peek()
	case "Clear":
		s.c.Clear()
	case "Values":
		s.c.Values()
	case "String":
		_ = s.c.String()
	case "ToJSON":
		s.IO().ToJSON()
		s.IO().MarshalJSON()
	case "Size":
		s.c.Size()
		s.c.Empty()
		if rb, ok := s.c.(*circularbuffer.Queue[T]); ok {
			rb.Full()
		}
	case "Sorted":
		containers.GetSortedValuesFunc[T](s.c, s.d.Cmp)
	case "Iter":
		hostileIdxIter[T](s.iter(), op.A[1])
	}
}

func (s *sqSubj[T]) EncodeModel() []byte {
	m := slices.Clone(s.m)
	if m == nil {
		return []byte("[]")
	}
	if s.lifo && !s.jsonTopFirst() {
		slices.Reverse(m)
	}
	return mustJSON(m)
}
func (s *sqSubj[T]) AdoptModel(from Subject) { s.m = slices.Clone(from.(*sqSubj[T]).m) }

// CheckNow runs the state comparison regardless of the sparse setting.
func (s *sqSubj[T]) CheckNow(o *Oracle) {
	sp := o.Sparse
	o.Sparse = false
	s.check(o)
	o.Sparse = sp
}
