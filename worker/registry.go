package main

func initWorlds() {
	worlds["C01"] = &histWorld{prop: "C01", tags: []string{"C01"}, kinds: kvKinds, minOps: 8}
	worlds["C02"] = &histWorld{prop: "C02", tags: []string{"C02"}, kinds: []string{"redblacktree", "avltree", "btree", "treemap", "treeset", "treebidimap"}, minOps: 8}
	worlds["C03"] = &histWorld{prop: "C03", tags: []string{"C03"}, kinds: listKinds, minOps: 8}
	worlds["C04"] = &histWorld{prop: "C04", tags: []string{"C04"}, kinds: setKinds, minOps: 8}
	worlds["C05"] = &histWorld{prop: "C05", tags: []string{"C05"}, kinds: sqKinds, minOps: 8}
	worlds["C06"] = &histWorld{prop: "C06", tags: []string{"C06"}, kinds: heapKinds, loads: true, minOps: 8}
	worlds["C07"] = &histWorld{prop: "C07", tags: []string{"C07"}, kinds: []string{"redblacktree", "avltree", "btree", "btree", "treemap", "treeset", "treebidimap"}, count: true, bigN: true, minOps: 8}
	worlds["C08"] = &iterWorld{}
	worlds["C09"] = &histWorld{prop: "C09", tags: []string{"C09"}, kinds: []string{"linkedhashmap", "linkedhashset"}, minOps: 8}
	worlds["C10"] = &histWorld{prop: "C10", tags: []string{"C10"}, kinds: []string{"hashbidimap", "treebidimap"}, minOps: 8}
	worlds["C11"] = &jsonWorld{prop: "C11"}
	worlds["C12"] = &jsonWorld{prop: "C12"}
	worlds["C13"] = &algWorld{}
	worlds["C14"] = &enumWorld{}
	worlds["C16"] = &scribbleWorld{}
	worlds["C18"] = &concWorld{}
	worlds["C17"] = &hostileWorld{}
	worlds["C15"] = &histWorld{prop: "C15", tags: []string{"C15"}, kinds: allKinds, c15: true, minOps: 8}
}
