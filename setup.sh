#!/bin/sh
set -e
cd "$(dirname "$0")"
export GOFLAGS=-mod=mod GOPROXY=off GOSUMDB=off GOTOOLCHAIN=local
mkdir -p bin
(cd driver && go build -o ../bin/godsim .)
