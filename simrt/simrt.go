// Package simrt is the runtime shim that godsim copies into the *scratch copy* of the
// repository under test (never into /repo). Instrumented library code calls Yield at the head of
// every block and MapKeys at every range-over-map; with no hook attached both are inert and the
// library behaves exactly as the uninstrumented code does.
package simrt

import (
	"fmt"
	"sort"
)

// Hook, when non-nil, is called at every yield site with the site id.
var Hook func(site int)

// Perm, when non-nil, receives the number of keys of a map about to be ranged over and returns
// a permutation seed for that loop; keys are first put in canonical order and then permuted.
var Perm func(n int) uint64

// NSites is overwritten by the instrumenter (generated file sites.go) with the number of sites.

func Yield(site int) {
	if h := Hook; h != nil {
		h(site)
	}
}

func less(a, b any) bool {
	switch x := a.(type) {
	case int:
		return x < b.(int)
	case string:
		return x < b.(string)
	case int64:
		return x < b.(int64)
	case uint64:
		return x < b.(uint64)
	case float64:
		y := b.(float64)
		return (x != x && y == y) || x < y // NaN first: a total order even with NaN keys
	}
	return fmt.Sprintf("%#v", a) < fmt.Sprintf("%#v", b)
}

// MapKeys returns the keys of m. Detached: native (random) order. Attached: canonical order
// permuted by a seed the simulator chooses, so the iteration order is owned by the simulator.
func MapKeys[M ~map[K]V, K comparable, V any](m M) []K {
	keys := make([]K, 0, len(m))
	for k := range m {
		keys = append(keys, k)
	}
	p := Perm
	if p == nil || len(keys) < 2 {
		return keys
	}
	sort.Slice(keys, func(i, j int) bool { return less(keys[i], keys[j]) })
	s := p(len(keys))
	// Fisher-Yates with splitmix64 stream from s
	for i := len(keys) - 1; i > 0; i-- {
		s += 0x9e3779b97f4a7c15
		z := s
		z = (z ^ (z >> 30)) * 0xbf58476d1ce4e5b9
		z = (z ^ (z >> 27)) * 0x94d049bb133111eb
		z ^= z >> 31
		j := int(z % uint64(i+1))
		keys[i], keys[j] = keys[j], keys[i]
	}
	return keys
}
