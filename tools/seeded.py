#!/usr/bin/env python3
"""Validates a seeded breaking change produced by a sub-agent and runs godsim checks against it.

usage: tools/seeded.py <src-dir> <seed-id> <property> [more properties to run ...]
  <src-dir> contains patch.diff, demo_*_test.go and notes.md (as written by the sub-agent)

Steps (all in scratch copies outside /repo and /verif, removed afterwards):
  1. clean copy of /repo: the demo must PASS
  2. patched copy: must compile, the repository's own tests must PASS, the demo must FAIL
  3. godsim quick check of the property (VERIF_REPO=patched copy): records exit code, oracle, wall time
Keeps /verif/seeded/<seed-id>/{patch.diff, demo file, notes.md, meta.json} when 1 and 2 hold.
"""
import json, os, re, shutil, subprocess, sys, tempfile, time, glob

ENV = dict(os.environ, GOFLAGS="-mod=mod", GOPROXY="off", GOSUMDB="off", GOTOOLCHAIN="local")
VERIF = os.path.dirname(os.path.dirname(os.path.abspath(__file__)))


def sh(cmd, cwd=None, env=ENV, timeout=900):
    p = subprocess.run(cmd, cwd=cwd, env=env, shell=True, stdout=subprocess.PIPE, stderr=subprocess.STDOUT, timeout=timeout, text=True)
    return p.returncode, p.stdout


def main():
    src, sid, prop = sys.argv[1], sys.argv[2], sys.argv[3]
    extra = sys.argv[4:]
    patch = os.path.join(src, "patch.diff")
    demos = sorted(glob.glob(os.path.join(src, "*_test.go")))
    notes = os.path.join(src, "notes.md")
    if not os.path.exists(patch) or not demos:
        print("MISSING patch.diff or demo in", src)
        return 2
    ntext = open(notes).read() if os.path.exists(notes) else ""
    demo = demos[0]
    dname = os.path.basename(demo)
    m = re.search(r"([A-Za-z0-9_./-]*/)" + re.escape(dname), ntext.replace("/tmp/wt/", "TMPWT/"))
    target_dir = None
    for cand in re.findall(r"((?:[a-z0-9_]+/)+)" + re.escape(dname), ntext):
        if not cand.startswith("tmp/") and "wt/out" not in cand and "out/" not in cand:
            target_dir = cand.rstrip("/")
            break
    if target_dir is None:
        head = open(demo).read(600)
        mm = re.search(r"((?:[a-z0-9_]+/)+)" + re.escape(dname), head)
        if mm and "out/" not in mm.group(1):
            target_dir = mm.group(1).rstrip("/")
    if target_dir is None:
        for line in open(patch):
            if line.startswith("+++ b/"):
                target_dir = os.path.dirname(line[6:].strip())
                break
    race = "-race" if prop == "C18" or "-race" in ntext else ""
    if os.environ.get("SEEDED_NORACE"):
        race = ""  # (a demonstration that must run without the race detector)
    tmp = tempfile.mkdtemp(prefix="seeded-")
    meta = {"seed_id": sid, "property": prop, "demo": dname, "demo_dir": target_dir, "ran": []}
    try:
        clean, bad = os.path.join(tmp, "clean"), os.path.join(tmp, "patched")
        for d in (clean, bad):
            sh(f"rsync -a --exclude .git /repo/ {d}/")
        rc, out = sh(f"patch -p1 -s < {patch}", cwd=bad)
        if rc != 0:
            print("PATCH DOES NOT APPLY\n", out)
            return 2
        rc, out = sh("go build ./...", cwd=bad)
        meta["ran"].append({"cmd": "go build ./... (patched)", "exit": rc})
        if rc != 0:
            print("DOES NOT COMPILE\n", out[-2000:])
            return 2
        rc, out = sh("go test -vet=off -count=1 -timeout 300s ./...", cwd=bad)
        meta["ran"].append({"cmd": "go test -vet=off -count=1 ./... (patched, existing suite)", "exit": rc})
        if rc != 0:
            print("EXISTING TESTS FAIL WITH THE CHANGE\n", out[-2000:])
            return 2
        for d in (clean, bad):
            shutil.copy(demo, os.path.join(d, target_dir, dname))
        pkg = "./" + target_dir + "/"
        run = f"go test {race} -vet=off -count=1 -timeout 300s -run 'Demo' {pkg}"
        rc1, out1 = sh(run, cwd=clean)
        rc2, out2 = sh(run, cwd=bad)
        meta["ran"].append({"cmd": run + " (clean tree)", "exit": rc1})
        meta["ran"].append({"cmd": run + " (patched tree)", "exit": rc2})
        if rc1 != 0:
            print("DEMO FAILS ON THE CLEAN TREE\n", out1[-2000:])
            return 2
        if rc2 == 0:
            print("DEMO PASSES ON THE PATCHED TREE\n", out2[-1500:])
            return 2
        os.remove(os.path.join(bad, target_dir, dname))
        results = {}
        base = os.environ.get("SEEDED_BASELINE")  # a checkout of an earlier commit of /verif: its owning check runs first
        if base:
            t0 = time.time()
            rc, out = sh(f"{base}/bin/godsim check {prop} --tier quick", cwd=base, env=dict(ENV, VERIF_REPO=bad), timeout=1800)
            for l in out.splitlines():
                mm = re.search(r"replay=(\S+)", l)
                if l.startswith("VIOLATION") and mm and os.path.exists(mm.group(1)):
                    os.remove(mm.group(1))
            meta["first_result_on_baseline_commit"] = "detected" if rc == 1 else "missed"
            print("BASE", prop, "exit", rc, f"{time.time()-t0:.0f}s")
        for p in [prop] + extra:
            t0 = time.time()
            env = dict(ENV, VERIF_REPO=bad)
            rc, out = sh(f"{VERIF}/bin/godsim check {p} --tier quick", cwd=VERIF, env=env, timeout=1800)
            viol = [l for l in out.splitlines() if l.startswith("VIOLATION")]
            oracle = re.findall(r'"oracle":"([^"]+)"', out)
            results[p] = {"exit": rc, "violation_lines": len(viol), "oracles": sorted(set(oracle)), "wall_s": round(time.time() - t0, 1)}
            for l in viol:  # the replay files belong to the scratch copy: remove them
                mm = re.search(r"replay=(\S+)", l)
                if mm and os.path.exists(mm.group(1)):
                    os.remove(mm.group(1))
            print(p, "exit", rc, sorted(set(oracle)), f"{time.time()-t0:.0f}s")
            if rc == 2:
                print(out[-1500:])
        meta["godsim"] = results
        meta["detected_by_owner"] = results[prop]["exit"] == 1
        dst = os.path.join(VERIF, "seeded", sid)
        os.makedirs(dst, exist_ok=True)
        shutil.copy(patch, os.path.join(dst, "patch.diff"))
        shutil.copy(demo, os.path.join(dst, dname))
        if os.path.exists(notes):
            shutil.copy(notes, os.path.join(dst, "notes.md"))
        old = {}
        mp = os.path.join(dst, "meta.json")
        if os.path.exists(mp):
            old = json.load(open(mp))
        old.update(meta)
        json.dump(old, open(mp, "w"), indent=1)
        print("KEPT", sid, "detected_by_owner =", meta["detected_by_owner"])
        return 0
    finally:
        shutil.rmtree(tmp, ignore_errors=True)


if __name__ == "__main__":
    sys.exit(main())
