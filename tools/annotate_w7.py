#!/usr/bin/env python3
"""Adds the wave-7 annotations to seeded/C??-w7?/meta.json (see annotate_w4.py). Idempotent."""
import json, os

ROOT = os.path.dirname(os.path.dirname(os.path.abspath(__file__)))
S = "strengthening_that_caught_it"
J = "judgement"
A = {
 "C01-w7A": ("linkedhashmap Remove without the membership guard + doublylinkedlist Remove taking its one-element shortcut before the range check (Remove of an absent key from a map of one)", {}),
 "C01-w7B": ("redblacktree Put of a present key rebuilds the node with a struct literal that drops the colour (latent: a later Put or Remove panics)", {}),
 "C01-w7C": ("btree Put appends keys >= the maximum straight into the right-most leaf from 256 keys on: overwriting the maximum duplicates it", {}),
 "C02-w7A": ("redblacktree iterator End() keeps the node and Next() tests the node instead of the position (End() from the middle, then Next())", {}),
 "C02-w7B": ("treeset iterator Next() at the end returns false without forwarding: a later Prev() on the same iterator skips the greatest element", {}),
 "C02-w7C": ("treeset Remove clears the set when it gets Size() arguments that are all members (a repeated member among them)", {}),
 "C03-w7A": ("doublylinkedlist Clear keeps last + Remove unlinks by prev == nil / next == nil (Clear or Sort, refill, Remove(0))", {}),
 "C03-w7B": ("singlylinkedlist Add builds a chain and sets last = tail: an empty variadic call on a non-empty list sets last to nil (the next append panics)", {}),
 "C03-w7C": ("singlylinkedlist Sort reverses the links in place when more than 12 elements are strictly descending under the comparator, and forgets last (then an append)", {S: "lists are also sorted by the reversed comparator (SortRev): after a Sort the list is met in exactly the opposite order"}),
 "C04-w7A": ("linkedhashset Remove without the membership guard + doublylinkedlist Remove taking its one-element shortcut before the range check", {}),
 "C04-w7B": ("linkedhashset Add filters the new items in place into the caller's slice", {}),
 "C04-w7C": ("hashset Remove clears the set when it gets Size() arguments that are all members (a repeated member among them)", {}),
 "C05-w7A": ("circularbuffer Enqueue tests the full flag + Dequeue clears it only when the cursors meet", {}),
 "C05-w7B": ("circularbuffer Dequeue on an empty ring still advances start (the next Enqueue finds the ring 'full')", {}),
 "C05-w7C": ("circularbuffer Peek on an empty ring rewinds the cursors (a write in a read-only call: visible only as a data race)", {}),
 "C06-w7A": ("binaryheap Values() level-sorts list.Values() in place + arraylist Values() clips instead of cloning: the caller holds the heap's array", {}),
 "C06-w7B": ("arraylist FromJSON decodes into the list's own spare capacity when empty: a load that fails on a type error leaves values that a later document's nulls pick up", {S: "C12 places a rejected document (one wrongly typed element after good ones) directly before an accepted one whose elements are partly null (F18) or partial structs, half the time right after a Clear"}),
 "C06-w7C": ("binaryheap bulk Push calls list.Add(values...) + arraylist Add adopts the argument slice when it has no storage", {}),
 "C07-w7B": ("redblacktree Put of a present key falls through to insertCase1 (a no-op Put recolours and rotates; later inserts unbalance the tree)", {}),
 "C07-w7C": ("redblacktree Put of a key that compares equal but is not == removes and re-inserts (three descents: over the bound under a coarsened comparator)", {}),
 "C08-w7A": ("doublylinkedlist Remove(first) leaves prev on the new head + iterator PrevTo follows prev pointers until nil", {}),
 "C08-w7B": ("treeset iterator NextTo/PrevTo count the index themselves: a fruitless search from past the end pushes it to n+1", {}),
 "C08-w7C": ("linkedhashset Iterator holds the list iterator by pointer: copies of an iterator value share one cursor", {J: "copies of an iterator value are not fresh iterators: C08 speaks of fresh iterators and of several iterators over one container, and on the unchanged tree copies of the tree-backed iterators (TreeSet, TreeMap) share their cursor in just this way; how a copied iterator value behaves is fixed by no property"}),
 "C09-w7A": ("doublylinkedlist Remove(first) leaves prev on the new head + iterator Prev recognises the front by a nil element (oldest key removed, then a backward walk)", {S: "the C09 and C02 checks walk the container's own iterators in both directions (the statement names the iterator)"}),
 "C09-w7B": ("linkedhashset Remove of >= 2 items marks them in a persistent map: the mark of an absent item survives and strikes it out after it was added later", {}),
 "C09-w7C": ("linkedhashset Remove clears the set when it gets >= Size() arguments that are all members (a repeated member among them)", {}),
 "C10-w7A": ("treebidimap Put keeps the displaced pair as an inverse-tree node + redblacktree Remove zeroes the unlinked node", {}),
 "C10-w7B": ("redblacktree Put of a present key falls through to insertCase1 (an identical-pair Put damages the colours; a later Remove panics)", {}),
 "C10-w7C": ("treebidimap Put looks the displaced pair up before the first removal and keeps it as a node (a repeated pair on a two-children inverse node)", {}),
 "C11-w7A": ("treeset FromJSON adds without clearing unless the size differs + Add skips items the tree already finds (coarsened comparator, load onto members that compare equal)", {}),
 "C11-w7B": ("linkedhashmap FromJSON decodes into the live table: a document rejected for a type error leaves ghost entries (a later Put of such a key is never linked)", {}),
 "C11-w7C": ("linkedhashset FromJSON skips Clear when it already holds exactly the document's members (the document's order is ignored)", {}),
 "C12-w7A": ("circularbuffer FromJSON bulk copy + Clear no longer resets the full flag (an empty document onto a full ring)", {}),
 "C12-w7B": ("arraylist FromJSON decodes into the spare tail of its own array: a rejected document's values stay there for a later document's nulls", {}),
 "C12-w7C": ("linkedhashmap FromJSON stores member names directly for string-kind keys, bypassing encoding.TextUnmarshaler", {S: "probe of the key-value kinds keyed by a string type that reads its text form case-insensitively (a foreign document onto a used map, judged by encoding/json into map[K]V); the instrumenter now rewrites `for k = range m` and labeled map ranges (the change had made the check exit 2)"}),
 "C13-w7A": ("hashset Union with an empty argument shares the map copy-on-write + Clear empties the map in place", {S: "the independence phases of C13 mutate the result and the operands also through Clear, a load that fails and a load that succeeds, not only Add/Remove"}),
 "C13-w7B": ("linkedhashset same-object algebra returns a copy-on-write twin; FromJSON resets the shared flag before it knows the decode succeeded", {S: "the independence phases of C13 mutate the result and the operands also through Clear, a load that fails and a load that succeeds, not only Add/Remove"}),
 "C13-w7C": ("treeset Union/Difference with an empty argument share the tree with a single back pointer: the same call twice, a write to the first result, a write to the operand", {S: "every algebra call of the C13 world is made twice; the second result is left alone while the first result and both operands are mutated, must still hold what the call returned, and is then emptied"}),
 "C14-w7A": ("linkedhashset Add tests membership for all items before marking any + Map builds its result with one New(mapped...)", {}),
 "C14-w7B": ("treebidimap Remove of an absent key removes the inverse entry of the zero value", {}),
 "C15-w7A": ("singlylinkedlist Remove(0) fast path leaves last on the dead node + Insert at Size() appends itself testing last == nil", {}),
 "C15-w7B": ("singlylinkedlist Add sets last = tail: nil after an empty variadic call", {}),
 "C15-w7C": ("treebidimap Put re-points the key through a node fetched before the evictions (unlinked by a two-children removal)", {}),
 "C16-w7C": ("arraylist Values() hands out its last snapshot again while the contents are equal (two callers hold one slice)", {}),
 "C17-w7A": ("avltree iterator folds the end/begin case + walk1 dereferences a nil receiver's parent (empty tree, two moves)", {}),
 "C17-w7B": ("redblacktree Put of an equal-but-not-identical key rebuilds the node without its colour (later panics)", {}),
 "C17-w7C": ("linkedhashset Remove of >= 8 items pre-sizes the survivors by counting present arguments (repeats make the capacity negative)", {}),
 "C18-w7A": ("hashmap table() allocates a nil map lazily + FromJSON(null) now installs a nil map: ToJSON writes in a read-only call", {}),
 "C18-w7B": ("circularbuffer Peek on an empty ring resets start only (the next Enqueue resurrects dequeued values)", {}),
 "C18-w7C": ("circularbuffer wraps start lazily: after a Dequeue of the last physical slot the next Peek writes start", {}),
}

missing = []
for sid, (needs, extra) in A.items():
    p = os.path.join(ROOT, "seeded", sid, "meta.json")
    if not os.path.exists(p):
        missing.append(sid)
        continue
    m = json.load(open(p))
    m["wave"] = 7
    m["author"] = "independent sub-agent given only the property text, a scratch worktree and the one-line summaries of earlier rounds ideas to avoid"
    m["needs_to_manifest"] = needs
    m.pop(S, None)
    m.pop(J, None)
    m.update(extra)
    owner = m["godsim"].get(m["property"], {})
    m["detected_by_owner"] = owner.get("exit") == 1
    if m.get("first_result_on_baseline_commit") == "detected":
        m.pop(S, None)
    json.dump(m, open(p, "w"), indent=1)
    open(p, "a").write("\n")
print(len(A) - len(missing), "annotated; missing:", missing)
