#!/bin/sh
# usage: tools/seeded_both.sh <src-dir> <seed-id> <prop>: first against the baseline checkout (/tmp/verif-base, the commit
# before any strengthening prompted by this wave), then against the working tree; records both in meta.json
src=$1; id=$2; prop=$3; wave=${4:-2}
base=$(cd /tmp/verif-base && python3 tools/seeded.py $src $id $prop 2>&1 | tail -2)
echo "BASE: $base"
cur=$(python3 /verif/tools/seeded.py $src $id $prop 2>&1 | tail -2)
echo "CUR:  $cur"
python3 - "$id" "$base" "$wave" <<'PY'
import json,sys
p=f'/verif/seeded/{sys.argv[1]}/meta.json'
try:
    m=json.load(open(p))
except Exception as e:
    print('no meta', e); sys.exit(0)
m['first_result_on_baseline_commit']='detected' if 'detected_by_owner = True' in sys.argv[2] else 'missed'
m['wave']=int(sys.argv[3]) if len(sys.argv)>3 else 2
m['author']='independent sub-agent given only the property text, a scratch worktree and the one-line summaries of earlier rounds ideas to avoid'
json.dump(m,open(p,'w'),indent=1)
print(sys.argv[1], m['first_result_on_baseline_commit'], '->', 'detected' if m.get('detected_by_owner') else 'MISSED')
PY
rm -rf /tmp/verif-base/seeded/$id
