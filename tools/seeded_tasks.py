#!/usr/bin/env python3
"""Writes the task files for a wave of sub-agents that produce seeded breaking changes.

usage: tools/seeded_tasks.py <wave-number> <scratch-root>      e.g. tools/seeded_tasks.py 5 /tmp/wt5

For every property it creates a git worktree <scratch-root>/<id> of /repo (HEAD) and
<scratch-root>/out/<id>/TASK.md. A task file contains only the text of that one property, the procedure, and the
one-line summaries of the ideas earlier waves already used for it (so that they are not repeated). Nothing about
/verif - its checks, oracles or worlds - is given to an agent.
"""
import glob, json, os, subprocess, sys

ROOT = os.path.dirname(os.path.dirname(os.path.abspath(__file__)))
wave, scratch = int(sys.argv[1]), sys.argv[2]
ordinal = {2: "SECOND", 3: "THIRD", 4: "FOURTH", 5: "FIFTH", 6: "SIXTH", 7: "SEVENTH", 8: "EIGHTH", 9: "NINTH", 10: "TENTH"}.get(wave, str(wave) + "th")

used = {}
for mp in sorted(glob.glob(os.path.join(ROOT, "seeded", "*", "meta.json"))):
    m = json.load(open(mp))
    head = m.get("needs_to_manifest", "").split(":")[0].strip()
    if head:
        used.setdefault(m["property"], []).append(head)

FLAVOURS_BY_WAVE = {
 5: """- A: a LATENT defect: the changed operation itself still returns the right answer and leaves every observer right for the moment; the damage shows only later, through a different operation family than the one you changed (for example a removal that leaves internal bookkeeping slightly wrong so that a much later insertion, iteration, serialization or Clear misbehaves). It should survive a test that checks the container after every single step with the usual observers for at least a few steps.
- B: a defect at a SEAM between this property's containers and another part of the library they rely on or that relies on them (the containers the property names are often built on other containers: lists under stacks and queues, the red-black tree under TreeMap/TreeSet/TreeBidiMap, hash maps under the bidirectional and linked maps, utils comparators, containers.GetSortedValues, the enumerable and iterator and serialization files). Change the lower layer in a way that its own package's behaviour stays plausible but the property's container breaks in a rare situation - or the other way round.
- C: your most devious idea for this property - something you believe even a careful reviewer and extensive automated randomized testing would probably still miss, while a user could realistically hit it (think of unusual but legal element types and values, unusual but legal comparators, boundaries of internal constants, particular sizes, process-wide state, the order of two unrelated calls).""",
 6: """- A: a defect of RE-USE: it needs the container to have been reset or rebuilt in the middle of its life (Clear, FromJSON onto a used container, removal of the last element, a ring that wrapped, a list that shrank back) and then used again in a particular way; a container that only grows, or one that is checked right after the reset, never shows it.
- B: a defect in a container that was PRODUCED BY ANOTHER OPERATION rather than by its constructor - the result of Select/Map, of Intersection/Union/Difference, of a json round trip, the map behind a set, the list behind a stack - which looks right when enumerated but misbehaves when it is itself mutated, iterated backwards, serialised, combined with others or used as an argument. (If the property names no such operation, use FromJSON/UnmarshalJSON or Clear as the producing step.)
- C: your most devious idea for this property - something you believe even a careful reviewer and extensive automated randomized testing would probably still miss, while a user could realistically hit it. The earlier rounds already covered: comparators with large or extreme results, NaN and -0.0, named and zero-size and pointer element types, sizes in the tens of thousands, hash collisions, package-level caches and pools, position hints that survive a mutation, the library's own TimeComparator. Find something none of these would reach.""",
 7: """- A: TWO COOPERATING SITES: two small edits in different functions (or files) that each look fine - and each, applied alone, leaves the property intact - but together break it in a rare situation (one site relaxes an invariant the other silently relied on: a helper that now tolerates something, a caller that now skips something). Say in notes.md what each edit does alone.
- B: damage left behind by an operation that FAILS or DOES NOTHING: an out-of-range Remove/Set/Insert/Swap, a Pop/Dequeue/Peek on an empty container, a Remove of an absent key, an Add of present members, a Put of an identical pair, an empty variadic call, a FromJSON that returns an error, an iterator walk that finds nothing. The failing call itself answers correctly, and so does everything checked right after it; the wrong behaviour shows only in some later, different operation.
- C: your most devious idea for this property - something you believe even a careful reviewer and extensive automated randomized testing would probably still miss, while a user could realistically hit it. The earlier rounds already covered: comparators with large or extreme results, NaN and -0.0, named and zero-size and pointer and very wide element types, sizes in the tens of thousands, hash collisions, package-level caches and pools, position hints that survive a mutation, containers reset and re-used, containers produced by other operations, the library's own TimeComparator. Find something none of these would reach (think of the ARGUMENTS: the container's own Values() or the container itself passed back in, duplicates or both present and absent items inside one variadic call, the same call repeated twice in a row, alternating directions).""",
 8: """- A: TWO LIVE OBJECTS: the defect needs two objects that are alive at the same time and whose uses are interleaved - two iterators over one container, an iterator and an enumerable call, two containers of the same kind (or a container and one built from its JSON, or a result and its operand), the same container reached through two interfaces. Each object used on its own, from creation to the end, behaves perfectly; only the interleaving of calls on both shows the defect. (Stay within the property: no iterator kept across a mutation of its container.)
- B: AN EXACT COINCIDENCE in internal arithmetic or structure: the defect shows only when two quantities that are usually different happen to be equal or adjacent - an index equal to size-1 while the capacity equals the size, start == end after a whole number of wraps, a node holding exactly the minimum number of keys next to a sibling holding exactly one more, a removal that empties a leaf which is also the right-most child, the new key equal to the current minimum or maximum, an even versus an odd order or length, a count that is exactly a power of two. Off by one in exactly one such configuration, right everywhere else.
- C: your most devious idea for this property - something you believe even a careful reviewer and extensive automated randomized testing would probably still miss, while a user could realistically hit it. The earlier rounds already covered: comparators with large or extreme results, NaN and -0.0, named and zero-size and pointer and very wide element types, key types with String or UnmarshalText methods, sizes in the tens of thousands, hash collisions, package-level caches and pools, position hints that survive a mutation, containers reset and re-used, containers produced by other operations, damage left by failing calls, arguments that repeat members or hand the container's own Values() back, the library's own TimeComparator. Find something none of these would reach.""",
 9: """- A: A PARTICULAR ORDER OF AT LEAST FOUR CALLS of at least three different kinds (for example a bulk insertion, then a lookup, then a removal at a particular place, then an enumeration): every shorter sequence, and the same calls in another order, behave correctly. Say in notes.md why each of the calls is needed.
- B: CONFIGURATION TIMES STATE: the defect needs a particular configuration chosen at construction (a B-tree order, a ring capacity, a comparator with a particular property such as many equal keys or a reversed order, an element type of a particular size or kind, initial values passed to the constructor versus added later) combined with a particular state reached later; with the usual configuration, or in other states, everything is right.
- C: your most devious idea for this property - something you believe even a careful reviewer and extensive automated randomized testing would probably still miss, while a user could realistically hit it within seconds of running time (not after billions of operations). The earlier rounds already covered: comparators with large or extreme results, NaN and -0.0, named and zero-size and pointer and very wide element types, key types with String or UnmarshalText methods, integer types at the ends of their ranges, sizes in the tens of thousands, lifetime counters in the thousands, hash collisions, package-level caches and pools, build constraints, position hints that survive a mutation, containers reset and re-used, containers produced by other operations, damage left by failing calls, arguments that repeat members or hand the container's own Values() back, two objects sharing a cursor or storage, the library's own TimeComparator. Find something none of these would reach.""",
 10: """- A: TWO DIFFERENT KINDS USED TOGETHER: the defect shows only when containers of two different kinds (or a container and plain Go values derived from it) are used together the way real programs do - one container's Values() or Keys() fed into another's Add/Put/Push, a container loaded from the JSON another kind wrote, containers held as elements or values of other containers, the result of an enumerable function or of set algebra handed to a different kind. Each kind driven on its own by its own tests is perfect.
- B: AN UNDO THAT IS ALMOST COMPLETE: an operation that discovers part-way that it must not or cannot finish (a duplicate, an index out of range, a document that fails to decode, a full ring, a key that is already there, an argument list that is partly present) and has to leave things as they were - and restores everything but one detail, which only a later, different operation reveals.
- C: your most devious idea for this property - something you believe even a careful reviewer and extensive automated randomized testing would probably still miss, while a user could realistically hit it within seconds of running time. The earlier rounds already covered: comparators with large or extreme results, NaN and -0.0, named and zero-size and pointer and very wide element types, key types with String or UnmarshalText methods, integer types at the ends of their ranges, sizes in the tens of thousands, lifetime counters in the thousands, extreme constructor arguments, values passed to constructors, hash collisions, package-level caches and pools, build constraints, goroutines started by the library, position hints and memos that survive a mutation or a load, containers reset and re-used, containers produced by other operations, damage left by failing calls, arguments that repeat members or hand the container's own Values() back, two objects sharing a cursor or storage, closures sharing a code pointer, the library's own TimeComparator. Find something none of these would reach.""",
}
FLAVOURS = FLAVOURS_BY_WAVE.get(wave, FLAVOURS_BY_WAVE[6])


os.makedirs(os.path.join(scratch, "out"), exist_ok=True)
for line in open(os.path.join(ROOT, "properties.jsonl")):
    p = json.loads(line)
    pid = p["id"]
    wt = os.path.join(scratch, pid)
    out = os.path.join(scratch, "out", pid)
    os.makedirs(out, exist_ok=True)
    if not os.path.exists(wt):
        subprocess.run(["git", "-C", "/repo", "worktree", "add", "--detach", "-q", wt, "HEAD"], check=True)
    ideas = "\n".join("- " + u for u in used.get(pid, []))
    title = p.get("title") or p.get("name") or ""
    quant = p.get("quantifier") or ""
    if isinstance(quant, dict):
        quant = quant.get("text", "")
    text = f"""# Task

You are helping test a verification tool by producing realistic, subtle bugs ("seeded breakages") in a Go library. Work ONLY inside your own scratch git worktree {wt} (a checkout of the library emirpasic/gods v2, module github.com/emirpasic/gods/v2) and write your results ONLY under {out}/. Never read or touch /repo, /verif, or any other {scratch}/* directory.

## The semantic property

{pid} — {title}

STATEMENT: {p.get('statement', '')}

QUANTIFIED OVER: {quant}

## What to produce

THREE different, independent code changes (A, B and C) to the library's non-test source files, each of which BREAKS the property above while (1) the library still compiles, and (2) the library's ENTIRE existing test suite still passes unchanged (do not edit or delete any existing *_test.go file). For each change also write a demonstration: a small new Go test file (demo_a_test.go / demo_b_test.go / demo_c_test.go placed in the relevant package directory; test function names must contain "Demo") that FAILS with your change applied and PASSES on the unmodified library. The demo may use goroutines with `-race`, counting comparators, os.Stdout capture, recover, exported struct fields etc., whatever the property requires (run a possibly non-terminating operation in a goroutine with a timeout).

This is the {ordinal} round of this exercise; the earlier rounds already used the ideas listed at the end of this section, so be inventive and stay strictly WITHIN the property: the container must be made by its constructor and used only through its documented exported methods (do not rely on zero-value containers, on overwriting exported struct fields, on iterators kept across a mutation, on element types whose == panics, on NaN inside hash-based containers, on what a callback sees in the middle of a mutating operation, on a comparator or callback that panics or cannot take the zero value of the element type, on the library's utils comparators themselves, or on accessor values of an iterator that has not just moved successfully - those are outside the property; the violation must be a wrong answer, wrong state, panic, hang, output or data race that the property's own wording forbids). Each change must still look like a plausible programmer mistake, refactoring slip or "optimisation" (not sabotage), stay small, and need something SPECIFIC and RARE to manifest. Aim for three different flavours:
{FLAVOURS}
Do not repeat these already-used ideas:
{ideas}

## Shell environment

Every shell command must start with `export GOFLAGS=-mod=mod GOPROXY=off GOSUMDB=off GOTOOLCHAIN=local` (no network). Full suite: `cd {wt} && go test -vet=off -count=1 -timeout 120s ./...` (never run tests without -timeout; a mutant may loop forever). Demo: `go test -vet=off -count=1 -timeout 60s -run Demo ./<pkg>/` (add -race if the demo relies on the race detector; it works here).

## Procedure for each change X in (A, B, C)

1. Start from a clean tree (`git -C {wt} checkout -- . && git -C {wt} clean -fdq`).
2. Write the demo test, confirm it PASSES on the clean tree.
3. Apply your change; confirm `go build ./...` works, the demo FAILS, and the full existing suite PASSES (run the suite with the demo file moved out, or before adding it).
4. Save: `mkdir -p {out}/X && git -C {wt} diff -- . ':(exclude)*demo_*_test.go' > {out}/X/patch.diff` (library change only), copy the demo file to {out}/X/, and write {out}/X/notes.md with: the file/function changed; why it breaks the property; exactly what is needed for it to manifest; a line of the form `demo path: <relative/path/in/repo/demo_x_test.go>`; whether the demo needs `-race`; the commands you ran and their outcomes.
5. Reset the worktree to clean before the next change.

Deliver as many of the three as survive the existing suite. Finish with a short report: one paragraph per change (file, function, trigger condition, demo path). Nothing else.
"""
    open(os.path.join(out, "TASK.md"), "w").write(text)
print("tasks written under", os.path.join(scratch, "out"))
