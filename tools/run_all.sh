#!/bin/sh
# runs every registered quick (or thorough) check in sequence; prints one line per check
tier=${1:-quick}
cd "$(dirname "$0")/.."
for p in $(python3 -c "import json;print(' '.join(c['property_id'] for c in json.load(open('MANIFEST.json'))['checks']))"); do
  out=$(bin/godsim check $p --tier $tier 2>&1); code=$?
  echo "$p exit=$code $(echo "$out" | tail -1)"
  if [ $code -ne 0 ]; then echo "$out" | head -20; fi
done
