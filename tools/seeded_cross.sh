#!/bin/sh
# For every kept seeded change that its owning check does not detect, re-runs the checks of the other properties recorded
# in its meta.json (the property that actually owns the behaviour) and records the result there.
# optional arguments: only these ids
cd "$(dirname "$0")/.."
V=$(pwd)
for d in seeded/*/; do
  id=$(basename $d)
  [ -f "$d/meta.json" ] || continue
  if [ $# -gt 0 ]; then case " $* " in *" $id "*) ;; *) continue ;; esac; fi
  others=$(python3 - "$d/meta.json" <<'PY'
import json, sys
m = json.load(open(sys.argv[1]))
g = m['godsim']
if g.get(m['property'], {}).get('exit') != 1:
    print(' '.join(p for p in g if p != m['property']))
PY
)
  [ -z "$others" ] && continue
  T=$(mktemp -d /tmp/sweep-XXXXXX)
  rsync -a --exclude .git /repo/ $T/repo/
  if ! (cd $T/repo && patch -p1 -s < $V/$d/patch.diff); then echo "$id PATCH-FAILS"; rm -rf $T; continue; fi
  for prop in $others; do
    t0=$(date +%s)
    out=$(VERIF_REPO=$T/repo bin/godsim check $prop --tier quick 2>&1); code=$?
    for f in $(echo "$out" | sed -n 's/.*replay=\(\S*\).*/\1/p'); do rm -f $f; done
    python3 - "$d/meta.json" "$prop" "$code" "$(( $(date +%s) - t0 ))" "$(echo "$out" | grep -o '"oracle":"[^"]*"' | sort -u | cut -d'"' -f4 | tr '\n' ' ')" "$(echo "$out" | grep -c '^VIOLATION')" <<'PY'
import json, sys
path, prop, code, wall, oracles, nv = sys.argv[1:7]
m = json.load(open(path))
m['godsim'][prop] = {'exit': int(code), 'violation_lines': int(nv), 'oracles': oracles.split(), 'wall_s': float(wall)}
json.dump(m, open(path, 'w'), indent=1)
open(path, 'a').write('\n')
PY
    echo "$id by $prop exit=$code"
  done
  rm -rf $T
done
echo CROSSDONE
