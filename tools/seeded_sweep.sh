#!/bin/sh
# Re-runs every kept seeded change (seeded/<id>/patch.diff) against the current checks: applies the patch to a scratch
# copy of /repo, runs the owning quick check with VERIF_REPO pointing at it, prints one line per change and a summary.
# (The demonstration tests were verified when the change was first kept; this sweep only re-asks the checks.)
cd "$(dirname "$0")/.."
V=$(pwd)
ok=0; miss=0; missed=""
# optional arguments: only these ids
for d in seeded/*/; do
  id=$(basename $d)
  if [ $# -gt 0 ]; then case " $* " in *" $id "*) ;; *) continue ;; esac; fi
  prop=$(python3 -c "import json;print(json.load(open('$d/meta.json'))['property'])")
  T=$(mktemp -d /tmp/sweep-XXXXXX)
  rsync -a --exclude .git /repo/ $T/repo/
  if ! (cd $T/repo && patch -p1 -s < $V/$d/patch.diff); then echo "$id PATCH-FAILS"; rm -rf $T; continue; fi
  t0=$(date +%s)
  out=$(VERIF_REPO=$T/repo bin/godsim check $prop --tier quick 2>&1); code=$?
  python3 - "$d/meta.json" "$prop" "$code" "$(( $(date +%s) - t0 ))" "$(echo "$out" | grep -o '"oracle":"[^"]*"' | sort -u | cut -d'"' -f4 | tr '\n' ' ')" "$(echo "$out" | grep -c '^VIOLATION')" <<'PY'
import json, sys
path, prop, code, wall, oracles, nv = sys.argv[1:7]
m = json.load(open(path))
if int(code) == 1 and not oracles.split() and 'fatal error' in open('/dev/null').read() + '':
    pass
m.setdefault('godsim', {})[prop] = {'exit': int(code), 'violation_lines': int(nv), 'oracles': oracles.split(), 'wall_s': float(wall)}
m['detected_by_owner'] = int(code) == 1
json.dump(m, open(path, 'w'), indent=1)
open(path, 'a').write('\n')
PY
  for f in $(echo "$out" | sed -n 's/.*replay=\(\S*\).*/\1/p'); do rm -f $f; done
  rm -rf $T
  if [ $code -eq 1 ]; then ok=$((ok+1)); echo "$id detected $(echo "$out" | grep -o '"oracle":"[^"]*"' | sort -u | head -3 | tr '\n' ' ')";
  else miss=$((miss+1)); missed="$missed $id"; echo "$id NOT-DETECTED exit=$code"; fi
done
echo "SWEEP: detected=$ok not-detected=$miss$missed"
