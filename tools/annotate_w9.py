#!/usr/bin/env python3
"""Adds the wave-9 annotations to seeded/C??-w9?/meta.json (see annotate_w4.py). Idempotent."""
import json, os

ROOT = os.path.dirname(os.path.dirname(os.path.abspath(__file__)))
S = "strengthening_that_caught_it"
J = "judgement"
A = {
 "C01-w9A": ("btree delete of a separator takes the successor when the predecessor's leaf is minimal and rebalances with the wrong reference key", {}),
 "C01-w9B": ("btree delete reads the deleted key from the separator before overwriting it with the predecessor (rebalance looks one slot too far right)", {}),
 "C01-w9C": ("btree Put counts an overwrite of a key in an internal node as an insertion", {}),
 "C02-w9A": ("avltree Right() caches the right-most node; a two-children removal that unlinks the cached successor does not drop it (Right, Remove(2), Remove(3), Right)", {}),
 "C02-w9B": ("btree insertIntoLeaf appends without searching when the key is >= the last entry of a leaf of >= 32 entries (overwriting that key stores it twice; order >= 33)", {}),
 "C02-w9C": ("redblacktree Keys() memoises its result and returns that same slice until the next mutation", {}),
 "C03-w9A": ("arraylist remembers the comparator it was sorted with and answers IndexOf/Contains by binary search; Swap does not reset the flag", {}),
 "C03-w9B": ("doublylinkedlist Sort writes the sorted values back into the nodes and skips nodes whose old value compares equal to the due one", {}),
 "C03-w9C": ("singlylinkedlist Sort returns early when nothing changed since the last Sort with 'the same' comparator, judged by the code pointer (closures of one factory)", {S: "the lists' Sort and SortRev comparators are closures of one factory: they share a code pointer and differ in what they captured"}),
 "C04-w9A": ("linkedhashset Values() returns a copy of the slice it produced last while its length equals Size() (Values, Remove, Add, Values)", {}),
 "C04-w9B": ("doublylinkedlist IndexOf compares with reflect.DeepEqual: of two distinct but deep-equal members the wrong one leaves the ordering", {}),
 "C04-w9C": ("treeset Contains() with no arguments is false on an empty set", {}),
 "C05-w9A": ("singlylinkedlist Remove keeps the unlinked node as a spare and Add reuses it without resetting next (enqueue twice, dequeue, enqueue: a cycle)", {}),
 "C05-w9B": ("circularbuffer Dequeue recomputes the size from the cursors before clearing the full flag (capacity 1)", {}),
 "C06-w9A": ("binaryheap heapifies a bulk Push lazily below an 'ordered' mark that FromJSON does not reset (push, read, shorter FromJSON, bulk push, Pop)", {}),
 "C06-w9B": ("binaryheap bulk Push appends without sifting when every value of the batch ties with the top", {}),
 "C06-w9C": ("binaryheap heapifies the two subtrees of the root in two goroutines from 8192 elements on: the caller's comparator is entered concurrently", {S: "extreme-configurations probe of the hostile world: one bulk Push and one FromJSON of about 9000 elements under a comparator that notes when it is entered while another call of it is still running"}),
 "C07-w9A": ("avltree removeFix writes the balance factor before the rotation in the sibling-balanced case (a later Put skips a rotation)", {}),
 "C07-w9B": ("btree borrow-from-left moves half of the left sibling's surplus at once and re-parents only the last moved child (order >= 6)", {}),
 "C08-w9A": ("singlylinkedlist Remove decrements the size before testing for the tail: last is left on the unlinked node (remove near the end, Add, iterate)", {}),
 "C08-w9B": ("circularbuffer iterator Value masks instead of taking the remainder for capacities it takes for powers of two (5, 9, 10, 17 ...)", {}),
 "C09-w9A": ("linkedhashset Remove remembers the item it last found absent; Add forgets it only when it is the first argument", {}),
 "C09-w9B": ("linkedhashset built from >= 64 constructor values rebuilds itself in hash order once it shrinks below a quarter of that", {S: "one list/set history in six starts from values passed to the constructor (none, a few, 70 or 130)"}),
 "C09-w9C": ("linkedhashmap keeps a 'newest' key for a fast Remove of the tail; an in-place update of another key marks it newest", {}),
 "C10-w9A": ("redblacktree deleteCase6 paints the sibling black instead of the parent's colour (latent: a later removal panics)", {}),
 "C10-w9B": ("redblacktree Put of a present key no longer refreshes the stored key (a key equal under the comparator but spelled otherwise: the two directions of a TreeBidiMap disagree)", {}),
 "C11-w9A": ("treebidimap FromJSON no longer clears: the inverse tree keeps value->key pairs from before the load", {}),
 "C11-w9B": ("btree ToJSON copies Root.Entries when size <= maxEntries (a two-level tree shrunk by removals; order >= 4)", {}),
 "C11-w9C": ("hashmap FromJSON decodes with UseNumber: numbers in `any` values reload as json.Number, same text, other content", {S: "the value-types world compares every reloaded value with the Go value encoding/json reads from the document (reflect.DeepEqual, dynamic types included), not only its JSON text"}),
 "C12-w9A": ("linkedhashmap FromJSON removes only the keys absent from the document: surviving keys keep their old position", {}),
 "C12-w9B": ("btree FromJSON reuses an internal root with >= 2 entries, leaving its children attached", {}),
 "C12-w9C": ("treeset UnmarshalJSON returns nil without touching the set for the literal null", {}),
 "C13-w9A": ("treeset Contains caches the node of its last hit; Remove drops the cache only when that very node is unlinked (a two-children removal unlinks the predecessor instead)", {}),
 "C13-w9C": ("treeset Difference gathers the argument's members into a scratch buffer kept in the argument (a write in a read-only call on a shared operand)", {}),
 "C14-w9A": ("singlylinkedlist Select links the copied nodes itself and sets last only for the first match", {}),
 "C14-w9B": ("treemap Map settles the final value per mapped key in a Go map (== instead of the comparator)", {}),
 "C14-w9C": ("linkedhashset Select collects matches in a scratch buffer kept on the receiver (a predicate that calls Select on the same set, or two concurrent readers)", {}),
 "C15-w9A": ("doublylinkedlist Insert at the head no longer sets the old head's prev (Insert(0, ...), then Remove of exactly the old head)", {}),
 "C16-w9A": ("circularbuffer Values() keeps the straightened copy of a wrapped ring and the call that builds it returns the kept slice itself", {S: "in the C16 world a mutation directly followed by the caller taking slices is not observed by the harness in between: the caller's Values() is then the first read after the mutation, the one that builds and hands out a memo"}),
 "C16-w9B": ("GetSortedValuesFunc binary insertion sort for <= 12 elements skips the insert when it finds an equal element", {}),
 "C16-w9C": ("arraylist Values() shrinks the backing array before cloning (a write in a read-only call, visible only as a data race)", {}),
 "C17-w9A": ("singlylinkedlist Remove(0) fast path leaves last on the dead node and Add tests last == nil (Add, Remove(0), Add, Get(0))", {}),
 "C17-w9B": ("btree Put pre-sizes the first root leaf with capacity order: orders near MaxInt panic in make", {S: "extreme-configurations probe of the hostile world: B-trees of order 2^62, MaxInt-1 and MaxInt through a short life"}),
 "C18-w9A": ("redblacktree Left() answers from a cached left-most node that Remove clears and the next Left() refills (a write in a read-only call after removing the minimum)", {}),
 "C18-w9B": ("redblacktree lookup refreshes the stored key with the one asked for (Get with another spelling of a key under a coarsened comparator writes)", {}),
 "C18-w9C": ("treeset Each iterates a cached snapshot while holding a mutex that Values() also takes: a callback that reads the set blocks for ever", {S: "stall detector: an operation that waits for ever under library code (here a mutex the library holds while it calls the caller's callback) ends the worker like a Go fatal error; the driver regenerates the plan and confirms it in a fresh process (before, the watchdog killed the worker: exit 2, no verdict)"}),
}

missing = []
for sid, (needs, extra) in A.items():
    p = os.path.join(ROOT, "seeded", sid, "meta.json")
    if not os.path.exists(p):
        missing.append(sid)
        continue
    m = json.load(open(p))
    m["wave"] = 9
    m["author"] = "independent sub-agent given only the property text, a scratch worktree and the one-line summaries of earlier rounds ideas to avoid"
    m["needs_to_manifest"] = needs
    m.pop(S, None)
    m.pop(J, None)
    m.pop("not_reached", None)
    m.update(extra)
    owner = m["godsim"].get(m["property"], {})
    m["detected_by_owner"] = owner.get("exit") == 1
    if m.get("first_result_on_baseline_commit") == "detected":
        m.pop(S, None)
    json.dump(m, open(p, "w"), indent=1)
    open(p, "a").write("\n")
print(len(A) - len(missing), "annotated; missing:", missing)
