#!/usr/bin/env python3
"""Adds the wave-5 annotations to seeded/C??-w5?/meta.json (see annotate_w4.py). Idempotent."""
import json, os

ROOT = os.path.dirname(os.path.dirname(os.path.abspath(__file__)))
S = "strengthening_that_caught_it"
J = "judgement"
TIME = "one comparator-using run in five ends with the kind under test built with utils.TimeComparator over time.Time keys (same instant in two locations, instants 2^64 ns apart, dates outside 1678..2262) against a reference keyed by the instant"
PTR = "the comparator is handed nil, the zero value of a pointer element type: the statements quantify over comparators that are strict weak orders on T and nil is a value of T, so no listed property is broken (for every comparator defined on all of T the behaviour is unchanged); the pointer-elements probe counts such calls as unjudged"
A = {
 "C01-w5A": ("avltree removeFix folds the three rebalancing cases into two and always reports a shorter subtree (latent: wrong balance factors, a later Put/Remove panics)", {}),
 "C01-w5B": ("utils.TimeComparator decides equality with == on time.Time (same instant in two locations compares -1 both ways)", {S: TIME}),
 "C01-w5C": ("redblacktree lookup fast path node.Key == key before the comparator (-0.0 and +0.0 under a sign-aware order)", {}),
 "C02-w5A": ("redblacktree keeps the last unlinked node as a spare and reuses it without resetting Parent (Remove, Clear, Put as root, rotation at the root)", {}),
 "C02-w5B": ("treebidimap Remove drops the inverse entry only when the stored key == the argument (coarsened comparator, NaN)", {}),
 "C02-w5C": ("redblacktree 'last found node' hint survives a two-children removal that unlinks the predecessor (Get p, Remove succ(p), Put p with no Get in between; a single TreeBidiMap.Put does exactly that)", {}),
 "C03-w5A": ("singlylinkedlist Remove pulls the successor into the node and forgets to move last (latent: the next Add hangs behind a dead node)", {}),
 "C03-w5B": ("doublylinkedlist IndexOf remembers the node it found, Prepend does not invalidate it (IndexOf, Prepend, Remove(i) with no other IndexOf in between)", {}),
 "C03-w5C": ("arraylist Contains hashes its arguments from 32 on and counts duplicate elements as separate hits (>= 32 arguments, one absent, duplicates among the searched values)", {S: "one multi-argument Contains query in six of the list and set checks has 30-49 arguments, nearly all members (repeated)"}),
 "C04-w5A": ("doublylinkedlist Remove fixes first/last only in one traversal branch each (latent under LinkedHashSet: a set of 2, remove the newer, add a new one: Values panics)", {}),
 "C04-w5B": ("utils.TimeComparator compares UnixNano() (instants 2^64 ns apart are one TreeSet member)", {S: TIME}),
 "C04-w5C": ("redblacktree Keys/Values with a fixed 32-slot stack: treeset.Values() panics from 196 609 descending members on", {S: "one scale run in three of every tree-backed kind uses 200 000 - 262 144 keys (not only C02's)"}),
 "C06-w5A": ("binaryheap FromJSON skips heapify when the array 'looks ordered', taking i>>1 as the parent of i (nearly sorted documents of >= 7 elements)", {}),
 "C06-w5B": ("arraylist FromJSON decodes every element into one shared variable: values leak between elements (null elements, objects with omitted members)", {}),
 "C06-w5C": ("binaryheap bubbleDown evaluates the comparator before the bounds test: at a node without right child the comparator gets the zero value", {J: PTR}),
 "C07-w5A": ("redblacktree deleteCase6 swaps two colour assignments (latent: one wrong colour, later operations mis-rebalance)", {}),
 "C07-w5B": ("treeset Union with an empty argument returns a struct copy of the receiver's tree (shared nodes)", {}),
 "C07-w5C": ("avltree sign(c) = c>>31|1 on a 64-bit int: comparator results of magnitude >= 2^32", {}),
 "C08-w5A": ("singlylinkedlist Get continues from a read cursor that Clear does not drop (armed by a read, Clear, refill without Prepend, first read at a position >= 1)", {}),
 "C08-w5B": ("btree iterator locates the current entry with == instead of the comparator (NaN keys; -0.0/+0.0 under a sign-aware order)", {}),
 "C08-w5C": ("binaryheap iterator Value reuses one scratch heap stored in the Heap (concurrent readers)", {}),
 "C10-w5A": ("redblacktree deleteCase3 flattened into a loop that no longer re-runs the red-sibling rotation (latent; needs about 14 pairs)", {S: "one bidirectional-map run in three uses value tables of 16-64 entries (a bijection holds at most as many pairs as there are values)"}),
 "C10-w5B": ("redblacktree.New replaces cmp.Compare by a hand-written three-way compare (NaN under treebidimap.New)", {}),
 "C10-w5C": ("redblacktree Put on an empty tree links the root before the comparator's self-check: a comparator that panics on the key leaves a half-inserted root", {J: "needs a comparator that panics on its argument and a caller that recovers from that panic and keeps using the map: the state after the caller's own callback panicked is fixed by no property"}),
 "C11-w5A": ("redblacktree remembers its serialised document; an overwriting Put returns early without dropping it (ToJSON, overwrite-only Puts, ToJSON)", {}),
 "C11-w5B": ("singlylinkedlist ToJSON marshals element by element (boxed copies): MarshalJSON methods on the pointer receiver are skipped", {S: "the C11 value-types world round-trips every value container over an element type whose JSON methods are on the pointer receiver"}),
 "C11-w5C": ("linkedhashmap ToJSON through an Encoder with SetEscapeHTML(false): not byte-identical to json.Marshal for <, >, &", {S: "ToJSON and json.Marshal(container) must be identical byte for byte for the ordered kinds (they are on the unchanged tree)"}),
 "C12-w5A": ("linkedhashmap FromJSON adopts the decoded map: the document null leaves a nil table, the next Put panics", {}),
 "C12-w5B": ("binaryheap UnmarshalJSON delegates to the list without heapify", {}),
 "C12-w5C": ("doublylinkedlist FromJSON decodes into a pooled slice: stale elements of an earlier, longer document show through null elements and omitted members", {}),
 "C13-w5A": ("redblacktree Copy forgets the colour: treeset Union with an empty operand returns an all-red clone (a later Add panics)", {}),
 "C13-w5B": ("utils.TimeComparator decides equality with == on time.Time", {J: "algebra over TreeSets ordered by utils.TimeComparator; the comparator change itself is caught by the time-keys probe of C01/C02/C04/C10, the C13 world does not use time.Time elements"}),
 "C13-w5C": ("treeset Difference prunes with the bounds of the argument, unassigned when it is empty: the comparator gets the zero value", {J: PTR}),
 "C15-w5A": ("btree appendChildren sets Parent on the wrong slice when two internal nodes merge (latent; height >= 3)", {}),
 "C15-w5B": ("arraylist ToJSON initialises a nil backing slice (a write in a read-only call on a never-used container)", {}),
 "C15-w5C": ("binaryheap iterator Value caches a scratch heap in the heap (concurrent readers)", {}),
 "C16-w5A": ("singlylinkedlist keeps a memo for IndexOf/Sort and seeds it with the caller's slice on Add to an empty list", {S: "the C16 world asks every observer of the other properties (IndexOf, Contains, Get ...), not only Values()"}),
 "C16-w5B": ("doublylinkedlist Values() keeps the returned slice as the IndexOf memo: after the caller writes to its Keys() slice, LinkedHashMap.Remove unlinks another key", {S: "the interfering caller may take and overwrite slices with nothing observed before the next operation (SnapScribbleNow)"}),
 "C16-w5C": ("utils.TimeComparator compares UnixNano()", {J: "GetSortedValuesFunc with utils.TimeComparator; the container and the function are untouched, the comparator change is caught by the time-keys probe of C01/C02/C04/C10"}),
 "C17-w5A": ("singlylinkedlist Prepend of two or more values onto an empty list leaves last on the head (latent: a later Add cuts the list)", {}),
 "C17-w5B": ("treeset keeps its comparator in a private field that Select/Map results (struct literals) leave nil: algebra on such results panics", {S: "algebra among Select/Map results and with the receiver, in the hostile catalogue and (judged) in C14"}),
 "C17-w5C": ("treemap String() calls Stringer methods itself, without fmt's nil-receiver guard: a nil pointer value whose type implements Stringer", {S: "the hostile world prints, serialises and searches containers of pointers to a type with a pointer-receiver String method, holding nil"}),
 "C18-w5A": ("arraylist Values() returns the backing array itself when it has no spare capacity (GetSortedValues then sorts the list in place)", {}),
 "C18-w5B": ("binaryheap iterator takes its scratch heap from a package-level pool and never resets the comparator: a read on one queue changes what a read on a queue with another comparator returns", {S: "the bystander of the history worlds is, every other time, ordered by another comparator than the container under test"}),
 "C18-w5C": ("linkedhashmap ToJSON caches per key type in an unsynchronised package-level map, filled on first use", {S: "in C18 even the twin is observed only after the concurrent phase (its ToJSON warmed the package-level cache before the readers ran)"}),

 "C05-w5A": ("circularbuffer Clear no longer rewinds start and end (latent: Clear of a partly filled ring, then Enqueue)", {}),
 "C05-w5B": ("arraylist Remove copies the survivors with an off-by-one when a removal shrinks an array of capacity >= 64 (ArrayQueue.Dequeue from 32 to 31 elements after growing past 62)", {}),
 "C05-w5C": ("arraylist growBy divides a cache-line size by unsafe.Sizeof(element): zero-size element types (struct{}) panic on the first Push", {S: "probe of the sequence containers and sets over struct{} elements"}),
 "C09-w5A": ("doublylinkedlist IndexOf/Remove position hint that Clear does not drop (a Remove that empties the map, the key inserted again among others, Remove of it)", {}),
 "C09-w5B": ("doublylinkedlist iterator Next increments past the end (Next false twice, or End then Next, then Prev)", {}),
 "C09-w5C": ("linkedhashmap ToJSON fast path for string keys writes strconv.Quote(name): control bytes, DEL, invalid UTF-8 give invalid JSON", {}),
 "C14-w5A": ("arraylist Select takes the leading run of matches as a capacity-capped sub-slice of the receiver (shared backing array until an Add)", {}),
 "C14-w5B": ("linkedhashmap Any/All range over the Go map instead of the iterator: after Put(+0.0), Put(-0.0) they see the key -0.0, the iterator +0.0", {S: "float keys without NaN for the linked hash kinds in the C14 world; predicates that depend on the exact rendering of the key"}),
 "C14-w5C": ("treeset Select/Map build their result with a bound method value as comparator: algebra between a result and its receiver sees 'different comparators'", {S: "algebra among Select/Map results and with the receiver, judged in C14"}),
}

missing = []
for sid, (needs, extra) in A.items():
    p = os.path.join(ROOT, "seeded", sid, "meta.json")
    if not os.path.exists(p):
        missing.append(sid)
        continue
    m = json.load(open(p))
    m["wave"] = 5
    m["needs_to_manifest"] = needs
    m.pop(S, None)
    m.pop(J, None)
    m.update(extra)
    owner = m["godsim"].get(m["property"], {})
    m["detected_by_owner"] = owner.get("exit") == 1
    if m["detected_by_owner"] and m.get("first_result_on_baseline_commit") == "detected":
        m.pop(S, None)
    json.dump(m, open(p, "w"), indent=1)
    open(p, "a").write("\n")
print(len(A) - len(missing), "annotated; missing:", missing)
