#!/usr/bin/env python3
"""Adds the wave-6 annotations to seeded/C??-w6?/meta.json (see annotate_w4.py). Idempotent."""
import json, os

ROOT = os.path.dirname(os.path.dirname(os.path.abspath(__file__)))
S = "strengthening_that_caught_it"
J = "judgement"
WALK = "containers produced by a load or a restart are walked with their own iterators in both directions (C11 restart-iteration, C12 loaded-iteration)"
A = {
 "C01-w6A": ("btree Clear keeps an internal root with stale children when few keys are left (even order, two-level tree shrunk to m-1 keys, Clear, Put)", {}),
 "C01-w6B": ("treemap Select on an empty map returns the receiver itself", {}),
 "C01-w6C": ("treebidimap Put returns early when the new value compares equal to the old one (coarsened value comparator, -0/+0)", {}),
 "C02-w6A": ("btree remembers its right-most leaf for ascending inserts and Clear does not drop the hint (ascending life, Clear, Put, Put above the old maximum)", {}),
 "C02-w6B": ("treeset Intersection of a set with itself returns a set sharing the operand's tree", {}),
 "C02-w6C": ("redblacktree IteratorAt leaves the state machine at begin: the iterator is right until it is moved", {}),
 "C03-w6A": ("singlylinkedlist Remove of the only element leaves last on the dead node and Prepend tests last == nil (emptied by Remove(0), refilled by Prepend, then Add)", {}),
 "C03-w6B": ("doublylinkedlist FromJSON builds the chain without prev links (a decoded list of >= 3, then Get/Set/Remove on a back-half index)", {}),
 "C03-w6C": ("arraylist growBy grows by a quarter for element types wider than 128 bytes and forgets the +n", {S: "the element-size probe also runs the sequence containers and sets over a 136-byte element type"}),
 "C04-w6A": ("redblacktree Remove: the 'promoted child of a removed root becomes black' test moved after replaceNode, never true (set of two, remove the root member, Add)", {}),
 "C04-w6B": ("linkedhashset FromJSON delegates to the ordering list and rebuilds the table: a document with a repeated element", {}),
 "C04-w6C": ("linkedhashset Remove with >= 16 arguments sweeps the ordering with an iterator that stops early", {}),
 "C05-w6A": ("singlylinkedlist Remove fast path for index 0 and Add testing last == nil (queue drained by Dequeue, then Enqueue)", {}),
 "C05-w6B": ("singlylinkedlist FromJSON builds the chain directly and records the tail only if last == nil (non-empty queue loaded, then Enqueue)", {}),
 "C05-w6C": ("circularbuffer Values() straightens a wrapped ring in place (a write in a read-only call)", {}),
 "C06-w6A": ("binaryheap keeps the last result of Values(); FromJSON of a document of the same length does not drop it", {}),
 "C07-w6A": ("redblacktree: 'the root is black' moved into deleteCase1 blackens the removed node, not its replacement (two keys, root removed, regrown)", {}),
 "C07-w6B": ("avltree FromJSON bulk-builds a median-split tree with balance factors derived from counts (a loaded tree of >= 6 keys, then Puts on one side)", {S: "the structure walk of C07 is part of the follow-up oracles after every load (C12) and in C16"}),
 "C07-w6C": ("btree insertIntoLeaf walks backwards from the last entry instead of bisecting: orders >= 63 with descending keys exceed the bound", {}),
 "C08-w6A": ("binaryheap memoises its iteration order; FromJSON does not drop the memo (read, re-load with other content, iterate)", {S: WALK}),
 "C08-w6B": ("avltree FromJSON bulk build passes the wrong parent on the right-hand recursion: every backward walk over a loaded tree goes wrong", {S: WALK}),
 "C08-w6C": ("arraylist Add adopts a spread argument slice as storage when the list has none", {}),
 "C09-w6A": ("linkedhashmap FromJSON no longer clears the hash table: a later Put of an old key the document lacks is never linked", {}),
 "C09-w6B": ("linkedhashset Union/Difference with an empty argument return a struct copy sharing the ordering list", {}),
 "C09-w6C": ("linkedhashmap ToJSON marshals the Go map in one call for >= 32 ascending keys: int keys come out in decimal-text order", {}),
 "C10-w6A": ("redblacktree Remove fast path for a root with one child never resets child.Parent (two nodes, root removed, two Puts forcing a root rotation)", {}),
 "C10-w6B": ("treebidimap FromJSON fills both trees directly: two keys equal under a coarsened key comparator leave a stale inverse entry", {}),
 "C10-w6C": ("redblacktree deleteCase5 hand-written rotation forgets to re-parent the inner subtree (about 1 removal in 300 in trees of >= 10 nodes)", {}),
 "C11-w6A": ("singlylinkedlist FromJSON recycles nodes and does not move last when the list was longer than the document (load, then append)", {}),
 "C11-w6B": ("doublylinkedlist FromJSON never assigns last for a one-element document", {}),
 "C11-w6C": ("redblacktree ToJSON keys the document by utils.ToString(key): key types with a String method (time.Weekday, enums)", {S: "the C11 value-types world round-trips the tree-backed maps over a named integer key type with a String method"}),
 "C12-w6A": ("singlylinkedlist FromJSON overwrites nodes in place; a one-element document onto a longer list leaves last on the cut-off tail", {}),
 "C12-w6B": ("treebidimap FromJSON inlines Put without dropping the old inverse entry of a key equal under a coarsened comparator", {S: "F17 foreign writer: documents written by a container of the same kind under the natural order, so that several distinct keys of the document are one key for the loading container's coarsened comparator"}),
 "C12-w6C": ("linkedhashmap FromJSON builds its per-member probe with Go quoting (%q): member names with control characters, DEL or astral non-printables vanish", {}),
 "C13-w6A": ("hashset Clear drops the table and Union clones a nil map: a cleared, still empty receiver with a non-empty argument panics", {}),
 "C13-w6B": ("linkedhashset Difference strikes out members without deleting them from the result's table", {}),
 "C13-w6C": ("treeset algebra iterates a kept snapshot refreshed only when the size changed (operand walked, edited to the same size, used again)", {}),
 "C14-w6A": ("treemap Each/Any/All/Find range over a flattened view that FromJSON (through the tree, not the wrapper) does not drop (enumerated, reloaded with as many entries, enumerated)", {S: "the persistence histories contain read-only and enumerable calls (one load in three is directly preceded by one) and every load is followed by Each and one of Any/All/Find judged against the iterator sequence"}),
 "C14-w6B": ("linkedhashmap Select clones the whole hash table and rebuilds only the ordering: rejected entries stay as phantom members of the result", {}),
 "C14-w6C": ("arraylist Select/Map of an empty list return a list sharing the receiver's backing array (cleared list with spare capacity)", {}),
 "C15-w6A": ("btree Clear keeps the old root as an empty leaf: Height() of a cleared tree is 1, of a new one 0", {}),
 "C15-w6B": ("circularbuffer FromJSON bulk copy leaves end == capacity for documents of >= capacity elements: the next Enqueue panics", {}),
 "C15-w6C": ("arraylist Add adopts a spread argument slice when the list has no storage", {}),
 "C16-w6A": ("circularbuffer Values() straightens a wrapped ring in place (visible only as a data race between readers)", {}),
 "C16-w6B": ("linkedhashset Add filters new items in place into the caller's slice", {}),
 "C16-w6C": ("GetSortedValuesFunc skips the sort when the container's comparator has the same code pointer as the one passed (closures of one factory)", {S: "a tree set / heap ordered by one closure of a factory is sorted with a sibling closure that orders the other way"}),
 "C17-w6A": ("redblacktree Remove: new-root-must-be-black test moved after replaceNode (two nodes, root removed, Put)", {}),
 "C17-w6B": ("treeset Union with an empty argument returns a shallow copy of the tree struct (shared nodes)", {}),
 "C17-w6C": ("linkedhashmap FromJSON de-duplicates by name and pre-sizes the key slice: one int key spelled two ways panics", {}),
 "C18-w6A": ("arraylist Values() shrinks the backing array when len <= cap/4 (after Clear and a small refill): a write in a read-only call", {}),
 "C18-w6B": ("linkedhashset Union returns an operand itself when the other is empty", {}),
 "C18-w6C": ("singlylinkedlist Contains permutes its (spread) argument slice while ticking values off: concurrent read-only calls sharing one argument slice race", {S: "concurrent readers pass one shared argument slice (spread) to Contains"}),
}

missing = []
for sid, (needs, extra) in A.items():
    p = os.path.join(ROOT, "seeded", sid, "meta.json")
    if not os.path.exists(p):
        missing.append(sid)
        continue
    m = json.load(open(p))
    m["wave"] = 6
    m["author"] = "independent sub-agent given only the property text, a scratch worktree and the one-line summaries of earlier rounds ideas to avoid"
    m["needs_to_manifest"] = needs
    m.pop(S, None)
    m.pop(J, None)
    m.update(extra)
    owner = m["godsim"].get(m["property"], {})
    m["detected_by_owner"] = owner.get("exit") == 1
    if m.get("first_result_on_baseline_commit") == "detected":
        m.pop(S, None)
    json.dump(m, open(p, "w"), indent=1)
    open(p, "a").write("\n")
print(len(A) - len(missing), "annotated; missing:", missing)
