#!/usr/bin/env python3
"""Prints the markdown table of seeded changes (DESIGN.md section 10.4) from seeded/*/meta.json."""
import json, glob, os
rows = []
for d in sorted(glob.glob(os.path.join(os.path.dirname(os.path.dirname(os.path.abspath(__file__))), 'seeded', '*', 'meta.json'))):
    m = json.load(open(d))
    g = m['godsim'][m['property']]
    first = m.get('first_result_on_baseline_commit', 'detected' if m.get('wave') == 1 and m['seed_id'] not in ('C18-A', 'C11-B') else 'missed' if m.get('wave') == 1 else '?')
    now = 'detected' if g['exit'] == 1 else 'not detected'
    orc = ', '.join(g['oracles'][:3])
    note = m.get('strengthening_that_caught_it', '')
    if g['exit'] != 1:
        others = [p for p, r in m['godsim'].items() if p != m['property'] and r['exit'] == 1]
        if others:
            now = 'detected by ' + '/'.join(others)
            orc = ', '.join(m['godsim'][others[0]]['oracles'][:3])
            note = 'owned by ' + '/'.join(others) + ': outside the named property\'s quantifier'
        elif 'judgement' in m:
            now = 'out of scope'
            note = m['judgement'].split(';')[0]
        elif 'not_reached' in m:
            now = 'not detected'
            note = 'out of reach: ' + m['not_reached'].split(';')[0]
    rows.append((m['seed_id'], m['property'], m.get('wave', '?'), m.get('needs_to_manifest', '').split(':')[0], first, now, orc, note))
print('| id | wave | change (see seeded/<id>/notes.md) | first run | now | oracle(s) that fire | strengthening that caught it |')
print('|---|---|---|---|---|---|---|')
for r in rows:
    print(f'| {r[0]} | {r[2]} | {r[3]} | {r[4]} | {r[5]} | {r[6]} | {r[7]} |')
n = len(rows); d1 = sum(1 for r in rows if r[4] == 'detected'); d2 = sum(1 for r in rows if r[5] == 'detected')
d3 = sum(1 for r in rows if r[5].startswith('detected by')); d4 = sum(1 for r in rows if r[5] == 'out of scope'); d5 = sum(1 for r in rows if r[5] == 'not detected')
print(f'\n{n} changes; {d1} detected by the owning check as it stood when the change arrived; now: {d2} detected by the owning check, '
      f'{d3} detected by the check of the property that actually owns the behaviour, {d4} judged outside the properties as read, {d5} not detected.')
