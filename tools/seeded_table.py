#!/usr/bin/env python3
"""Prints the markdown table of seeded changes (DESIGN.md section 10.4) from seeded/*/meta.json."""
import json, glob, os
rows = []
for d in sorted(glob.glob(os.path.join(os.path.dirname(os.path.dirname(os.path.abspath(__file__))), 'seeded', '*', 'meta.json'))):
    m = json.load(open(d))
    g = m['godsim'][m['property']]
    first = m.get('first_result_on_baseline_commit', 'detected' if m.get('wave') == 1 and m['seed_id'] not in ('C18-A', 'C11-B') else 'missed' if m.get('wave') == 1 else '?')
    rows.append((m['seed_id'], m['property'], m.get('wave', '?'), m.get('needs_to_manifest', '').split(':')[0], first,
                 'detected' if g['exit'] == 1 else 'MISSED', ', '.join(g['oracles'][:3]), m.get('strengthening_that_caught_it', '')))
print('| id | wave | change (see seeded/<id>/notes.md) | first run | now | oracle(s) that fire | strengthening that caught it |')
print('|---|---|---|---|---|---|---|')
for r in rows:
    print(f'| {r[0]} | {r[2]} | {r[3]} | {r[4]} | {r[5]} | {r[6]} | {r[7]} |')
n = len(rows); d1 = sum(1 for r in rows if r[4] == 'detected'); d2 = sum(1 for r in rows if r[5] == 'detected')
print(f'\n{n} changes; {d1} detected by the checks as they stood when the change arrived, {d2} detected now.')
