#!/usr/bin/env python3
"""Adds the wave-10 annotations to seeded/C??-w10?/meta.json (see annotate_w4.py). Idempotent."""
import json, os

ROOT = os.path.dirname(os.path.dirname(os.path.abspath(__file__)))
S = "strengthening_that_caught_it"
J = "judgement"
A = {
 "C01-w10A": ("linkedhashmap FromJSON steps over member values token by token and treats an opening brace as a scalar (object-valued members: inner names become keys)", {}),
 "C01-w10B": ("linkedhashmap FromJSON single pass: the undo after a wrongly typed later member does not clear the ordering first", {}),
 "C02-w10A": ("treebidimap FromJSON puts the decoded pairs into both trees directly (a document that repeats a value, as another map kind writes)", {}),
 "C02-w10B": ("btree Put counts first and gives the slot back on an overwrite - except for a key sitting in an internal node", {}),
 "C02-w10C": ("redblacktree Floor/Ceiling keep their running candidate in a field of the tree (concurrent readers)", {}),
 "C03-w10A": ("singlylinkedlist Insert returns early for values == nil instead of len(values) == 0 (an empty, non-nil Values() of another container at index 0)", {}),
 "C03-w10B": ("singlylinkedlist Sort clears early and, finding the values already in order, restores first and size but not last", {}),
 "C03-w10C": ("arraylist growBy with factor 1.0 computed in float32: one call with more than 2^24 values rounds the capacity below the length", {S: "a variadic Add of 2^24+1 .. 2^24+5 values onto ArrayList[int8] and ArrayList[struct{}] (HugeAdd step of the hostile world)"}),
 "C04-w10A": ("treeset Contains answers >= 8 non-decreasing arguments by one merge pass that advances both sides on a match (a repeated argument)", {}),
 "C04-w10B": ("linkedhashset FromJSON clears first and restores the saved table and ordering on error - the ordering list was emptied in place", {}),
 "C04-w10C": ("linkedhashset Add of >= 128 items pre-sizes the table and copies the old entries the wrong way round", {}),
 "C05-w10A": ("circularbuffer FromJSON drops whole laps of an over-long document (n mod c values stay)", {}),
 "C05-w10B": ("arraylist FromJSON decodes into the list's own truncated slice and restores only the slice header on error", {}),
 "C05-w10C": ("circularbuffer Size() stores the size it computes (a write in every observer, visible only as a data race)", {}),
 "C06-w10A": ("binaryheap bulk Push appends an already ordered batch without sifting when its first value is not below the last array slot", {}),
 "C06-w10B": ("arraylist FromJSON decodes over the live storage and restores only the slice header on error", {}),
 "C06-w10C": ("priorityqueue Values() sorts with slices.SortFunc (unstable from 13 elements on: Values()[0] is another of the tied best)", {}),
 "C07-w10B": ("redblacktree FromJSON builds the new content first and restores Root but not size when decoding fails", {}),
 "C07-w10C": ("btree prependChildren re-parents the receiving node's own children instead of the moved ones", {}),
 "C08-w10A": ("doublylinkedlist Prepend of >= 2 values splices a chain in front without setting the old head's prev", {}),
 "C08-w10B": ("treeset iterator Prev steps the tree iterator first: a failed Prev from position 0 leaves the index at 0 and the cursor before the first", {}),
 "C08-w10C": ("circularbuffer iterator NextTo/PrevTo pass the ring slot number to the predicate instead of the index", {}),
 "C09-w10A": ("linkedhashset FromJSON drops repeated elements by indices taken from the original snapshot (a document with two repeats)", {}),
 "C09-w10B": ("linkedhashmap FromJSON decodes into the live table and writes saved entries back on error without deleting the keys the decoder added", {}),
 "C09-w10C": ("linkedhashmap FromJSON enters the ordered token walk only if the bytes start with a brace (leading white space: hash order)", {}),
 "C10-w10A": ("treebidimap FromJSON checks only the inverse tree for repeats (two names that are one key under a coarsened comparator)", {}),
 "C10-w10B": ("treebidimap FromJSON clears before decoding and restores only the forward tree on error", {}),
 "C10-w10C": ("hashbidimap Put handles 'key present' and 'value present' as if / else if", {}),
 "C11-w10A": ("linkedhashset FromJSON bulk-loads table and ordering without de-duplicating (a document written by a list kind)", {}),
 "C11-w10B": ("circularbuffer FromJSON clears before decoding and restores everything but end on error", {}),
 "C12-w10A": ("linkedhashset FromJSON bulk load without the membership test", {}),
 "C12-w10B": ("circularbuffer FromJSON decodes element by element into the live ring and rolls back with a shallow copy", {}),
 "C12-w10C": ("hashmap FromJSON leaves the allocation to encoding/json: null installs a nil map (the next Put panics)", {}),
 "C13-w10A": ("treeset Intersection leapfrogs with Ceiling when the sizes differ 64-fold and skips the member it lands on", {S: "lopsided runs of the C13 world: one operand of 300-900 members, the other of a handful"}),
 "C13-w10B": ("linkedhashset FromJSON clears first and restores table and (emptied) ordering on error: algebra ranges over the table of a set that reports no members", {}),
 "C14-w10B": ("treebidimap Map inlines Put with else-if: a pair colliding on key and value leaves a stale inverse entry", {}),
 "C14-w10C": ("arraylist Select evaluates the predicate in blocks of 64 into a mask that the all-ones fast path does not clear", {S: "predicates with a long leading run of matches (index < 8k) and receivers of 70-600 elements in the C14 world"}),
 "C15-w10A": ("linkedhashset FromJSON bulk load without de-duplicating + Size() from the table", {}),
 "C15-w10B": ("arraylist FromJSON decodes into the live slice and restores only the header on error", {}),
 "C15-w10C": ("circularbuffer Values() straightens a wrapped ring in place (a write in a read-only call)", {}),
 "C16-w10A": ("binaryheap bulk Push sorts the caller's argument slice in place before adding it", {}),
 "C16-w10C": ("circularbuffer Values() hands out the ring's own storage for a full ring of capacity 1", {}),
 "C17-w10A": ("singlylinkedlist Insert returns early for values == nil instead of len(values) == 0", {}),
 "C17-w10B": ("circularbuffer Dequeue on an empty ring steps back without wrapping (start becomes -1 when it stood on slot 0 ... the last slot)", {}),
 "C17-w10C": ("circularbuffer Size() stores the size it recomputes for a wrapped ring (data race between observers)", {}),
 "C18-w10C": ("arraylist IndexOf does a sentinel search on lists of >= 64 with spare capacity (writes and clears the slot past the end)", {}),
}

missing = []
for sid, (needs, extra) in A.items():
    p = os.path.join(ROOT, "seeded", sid, "meta.json")
    if not os.path.exists(p):
        missing.append(sid)
        continue
    m = json.load(open(p))
    m["wave"] = 10
    m["author"] = "independent sub-agent given only the property text, a scratch worktree and the one-line summaries of earlier rounds ideas to avoid"
    m["needs_to_manifest"] = needs
    m.pop(S, None)
    m.pop(J, None)
    m.pop("not_reached", None)
    m.update(extra)
    owner = m["godsim"].get(m["property"], {})
    m["detected_by_owner"] = owner.get("exit") == 1
    if m.get("first_result_on_baseline_commit") == "detected":
        m.pop(S, None)
    json.dump(m, open(p, "w"), indent=1)
    open(p, "a").write("\n")
print(len(A) - len(missing), "annotated; missing:", missing)
