#!/usr/bin/env python3
"""Regenerates /verif/MANIFEST.json from the table below (run by hand after registering a check)."""
import json, os, sys

HERE = os.path.dirname(os.path.dirname(os.path.abspath(__file__)))

DEGENERATE = ("The statement quantifies over histories and configurations, not over schedules or faults, so the "
              "simulation is degenerate here (DESIGN.md section 2): a seeded scheduler interleaves scripted clients into one "
              "history, the real container and a trivial reference model run it in lock-step, the oracle is evaluated after every "
              "step, failures are minimised and replayed from a plan file. No stronger than seeded model-based testing with shrinking; "
              "a clean batch is evidence, not proof.")

CHECKS = {
 "C01": ("exploration", "seeded history simulation vs map reference model (lock-step refinement, every key probed after every step)",
         "Get/Size/Keys/Values of all 8 key-value containers equal a reference map after every step of seeded multi-client histories (ascending, descending, zig-zag, churn, re-put, remove-absent, clear), int and string keys, natural/reversed/coarsened comparators, B-tree orders 3-12, owned map-iteration order. " + DEGENERATE, "4 C01"),
 "C02": ("exploration", "seeded history simulation vs sorted reference model (order, extremes, Floor/Ceiling over all probes after every step)",
         "Strict ascending order of Keys/Values/iteration, Left/Right/Min/Max/LeftKey/RightKey and Floor/Ceiling for every probe (present, absent, between neighbours, beyond both ends) are compared with a sorted reference after every step; node-level navigation (AVL Node.Next/Prev chains, GetNode, red-black IteratorAt) must agree with it. Comparators include natural, reversed, coarsened and four that are legal but not -1/0/1 (large, subtraction, MinInt/MaxInt, sign-aware float order with NaN and both zeros). " + DEGENERATE, "4 C02, 10.2"),
 "C03": ("exploration", "seeded history simulation vs slice reference model, the three lists against one sequence",
         "Values/Size/Get(-1..size)/IndexOf/Contains of the three lists equal an abstract sequence after every step of seeded histories with boundary-biased indices and variadic counts 0..9, Sort by the comparator and by its reverse, the list's own Values() handed back to Add/Prepend/Insert/Contains, and the same call repeated twice in a row. " + DEGENERATE, "4 C03"),
 "C04": ("exploration", "seeded history simulation vs set reference model",
         "Contains over the whole domain, multi-argument Contains, Size and Values-once are compared with a reference set after every variadic Add/Remove/Clear. " + DEGENERATE, "4 C04"),
 "C05": ("exploration", "seeded history simulation vs LIFO/FIFO/bounded-FIFO reference model",
         "Return values of Pop/Dequeue/Peek, Values in removal order, Size and Full are compared with reference stacks/queues/ring after every step; producer/consumer/burst clients drive the ring through its wrap-around positions for capacities 1-9. " + DEGENERATE, "4 C05"),
 "C06": ("exploration", "seeded history simulation vs multiset reference model (minimality and conservation after every step, final drain)",
         "Every Pop/Peek result must be a member that no member precedes; the member multiset (full identity, distinguishable ties) must equal pushed+loaded minus popped; Values/iteration must be a permutation starting with the Peek element; a final drain must be non-decreasing. Histories include bulk pushes and FromJSON of arbitrary arrays. " + DEGENERATE, "4 C06"),
 "C07": ("exploration", "seeded history simulation with a counting comparator and structure walks of the exported tree fields",
         "Comparator calls of every Get/Put/Remove are compared with the statement's formula at the most favourable n; AVL/B-tree/red-black shape invariants are walked from exported fields (every step for n<=64, sampled above, always at the end) under sorted, reverse, zig-zag, sweep and churn clients up to n=1024 (quick) / 4096 (thorough). " + DEGENERATE, "4 C07"),
 "C08": ("exploration", "seeded simulation of interleaved iterator clients (and read-only calls between their moves) vs cursor reference model (-1..n)",
         "All 18 iterator types: after a seeded history, 1-3 iterator clients each owning a fresh iterator are interleaved over an unmodified container; the return value of every Next/Prev/Begin/End/First/Last/NextTo/PrevTo and Index/Key/Value at every in-range position are compared with a cursor model over the container's own Values()/Keys(); moves are biased to reversals at both sentinels; empty and single-element states are frequent; one run in six starts from a bulk-filled container reshaped by a burst of removals. " + DEGENERATE, "4 C08 and appendix A.1"),
 "C09": ("exploration", "seeded history simulation vs insertion-order reference model",
         "Keys/Values/iterator/Each/ToJSON member order of LinkedHashMap and LinkedHashSet equal the reference 'order of insertion since last absent' after every step. " + DEGENERATE, "4 C09"),
 "C10": ("exploration", "seeded history simulation vs bijection reference model with eviction",
         "Get/GetKey consistency in both directions over the whole key and value tables, no shared value, Size=len(Keys)=len(Values) and equality with the eviction model after every step, value tables small enough to force every collision kind, coarsened key and value comparators. " + DEGENERATE, "4 C10"),
 "C11": ("exploration", "deterministic simulation of the persistence boundary: checkpoint, crash-restart into a fresh container, forked drains (durability round trip)",
         "All 21 kinds under seeded histories with checkpoint and crash-restart as generated operations: at every checkpoint ToJSON must be valid JSON of the right top-level kind and the same document (token sequence; multiset for hash kinds) as json.Marshal(container); at every restart the document is reloaded (FromJSON / UnmarshalJSON / json.Unmarshal) into a fresh container of the same configuration which must equal the model and the live container (size, content, order) and drain (Pop/Dequeue) like the live one; the run then continues on the restarted container; drains are compared with full element identity; documents returned by ToJSON are held and must not change later; one run in six uses struct, map, slice, pointer and any values in the key-value containers. Ring capacities 1-9 incl. wrapped and partial states, B-tree orders to 256, int and string keys, values textually equal to keys. Sampled.", "4 C11"),
 "C12": ("fault_enumeration", "deterministic simulation with fault injection on the snapshot store (18 fault kinds on the bytes between ToJSON and FromJSON), thorough tier enumerates every truncation offset",
         "Loads onto live containers with arbitrary prior content of bytes that are intact, stale (lost write), of the wrong document kind, torn, bit-flipped, structurally overwritten, span-dropped/duplicated/swapped, garbage-appended, zero-filled, wrongly typed at an element, duplicated, re-encoded (whitespace, \\u escapes) or partially-structured. Error => observable state (all observers + ToJSON) identical to before; success => content equals what a reference decoder (encoding/json into plain Go values + the kind's normalisation) says the bytes denote, success on invalid JSON is a violation; afterwards the run continues under the C01-C06/C09/C10/C15 oracles. The thorough tier additionally enumerates, for a snapshot, every truncation offset, every single-bit flip and every single-byte structural overwrite (fault enumeration); everything else is sampled, including loads onto containers of 1000-2200 elements.", "4 C12, 3.5"),
 "C13": ("exploration", "seeded history simulation of two sets vs set-algebra reference model, independence probes by mutation",
         "Pairs of sets of the same kind built by seeded histories (free, disjoint, nested, equal, one empty, either larger, same object as both operands); members of Intersection/Union/Difference are compared with the model, operands must be observably unchanged, then result, a and b are mutated in turn and the others must not move; TreeSet results must stay ascending under the operands' comparator after further Adds, and results are used as operands of further algebra (chaining). " + DEGENERATE, "4 C13"),
 "C14": ("exploration", "seeded history simulation; callback families; results wrapped as subjects and judged by the model oracles",
         "Each call log equals the iterator sequence; Any/All/Find equal exists/for-all/first-match; Select/Map results are compared with 'insert in iteration order' on a reference model of the same kind and then mutated under the C01-C04/C09/C10 oracles (same discipline and comparator); receiver must be observably unchanged and independent of the result in both directions; Select/Map results are also compared element by element with the library's own repeated insertion into a fresh container; a quarter of the callbacks are re-entrant (they read the receiver mid-enumeration); one run in 1500 enumerates a tree of 200 000-262 144 sorted keys. " + DEGENERATE, "4 C14"),
 "C15": ("exploration", "seeded history simulation; lock-step differential of a cleared container against a fresh instance",
         "Empty/Size/len(Values)/len(Keys)/String-name agreement after every step on all 21 containers; Clear at a seeded point, then the same continuation is applied to the cleared container and to a freshly constructed one and all observers including ToJSON must agree after every step. " + DEGENERATE, "4 C15"),
 "C16": ("exploration", "deterministic simulation with fault injection: the interfering caller (scribble on returned and passed slices)",
         "The injected fault is a caller that keeps every slice it received from Values()/Keys() and every slice it passed to constructors and Add/Append/Prepend/Insert/Push/Remove, and at seeded moments overwrites them and appends within spare capacity; the container must stay equal to its model, earlier snapshots must not move under later mutations, GetSortedValues/GetSortedValuesFunc must return the sorted content and leave the container (including a heap's raw layout) unchanged; GetSortedValues is also probed over float32, named float, int8, uint16 and named string elements. Sampled histories, all 21 kinds.", "4 C16"),
 "C17": ("exploration", "deterministic simulation of a hostile caller: every exported operation with unconstrained arguments and faulted bytes; monitors for panic, termination in simulated steps, and fd 1/2 growth",
         "Every exported operation of all 21 containers and 18 iterators (accessors only after a successful move) with arguments from {MinInt, -2^31, -1, 0, size+-1, 2^31, MaxInt}, absent keys, empty and long variadics, empty containers, FromJSON of faulted and random bytes. A panic raised inside the library is a violation; an operation passing more than 5e7 yield sites is declared non-terminating (deterministic, replayable); file descriptors 1 and 2 are redirected to worker-owned files whose size is checked after every operation; Go fatal errors are attributed via a start marker and confirmed in a fresh process. Sizes bounded at 256. Sampled.", "4 C17"),
 "C18": ("exploration", "deterministic simulation: seeded scheduler over go/ast-inserted yield sites, one reader task at a time, Go race detector with the scheduler's handoffs hidden (RaceDisable), sequential reference results, fingerprint-triggered amplification",
         "All 21 kinds in states reached by seeded histories; epochs of an exclusive write phase and a read phase with 2-4 reader tasks running scripts from the full read-only catalogue. Every interleaving decision (every library block is a preemption point) comes from the plan, so a run replays exactly. Oracles: (i) the race detector, which sees the readers as unsynchronised because the handoff synchronisation is hidden from it, reports any write by a reader to memory another reader touches regardless of the interleaving that happened; (ii) every concurrent result equals the result of the same call executed alone; (iii) observable state unchanged by the phase; (iv) a read call that changes the memory image (reflect+unsafe walk) triggers an amplification run of that call on two tasks at every-yield switching. Sampled schedules, happens-before detector.", "4 C18, 3.3"),
}

# additions after the fourth wave of seeded changes (DESIGN.md 10.2, 10.4)
EXTRA = {
 "C03": " One history in two hundred contains a long run (4200 - 70 000 pairs) of insertions each undone by a removal. One history in six starts from values passed to the constructor; Sort comparators are closures of one factory (one code pointer).",
 "C01": " Scale runs (33 000-70 000 keys through growth, removal of half, Clear and re-use, closed-form expectations) and a probe of the default constructors over float32, a named float64 with NaN, int8, uint16 and a named string. Histories include a Put of the very pair the map already holds and the same call repeated twice in a row. One history in two hundred contains a long run (4200 - 70 000 pairs) of operations that cancel out, taking whatever the container counts over its lifetime past 4096 and 65 536.",
 "C02": " Scale runs with 200 000-262 144 keys in ascending or descending order (Keys, Values, both iteration directions, Floor/Ceiling, Min/Max by arithmetic); default-constructor probe over other ordered types. B-tree orders 300 and 1024.",
 "C04": " Scale runs (33 000-70 000 members); default-constructor probe over other ordered types. The set's own Values() is handed back to Add, Remove (all, or all but one member) and Contains; the same call is repeated twice in a row. One history in two hundred contains a long run (4200 - 70 000 pairs) of operations that cancel out, taking whatever the container counts over its lifetime past 4096 and 65 536. One history in six starts from values passed to the constructor.",
 "C05": " One ring run in ten uses capacities 1024-4096 filled to about the capacity in one step; float elements are compared by exact rendering (-0 is not +0). One history in two hundred contains a long run (4200 - 70 000 pairs) of operations that cancel out, taking whatever the container counts over its lifetime past 4096 and 65 536.",
 "C06": " Loads go through FromJSON, UnmarshalJSON and json.Unmarshal; default-constructor probe over other ordered types. The heap's own Values() is handed back to Push. One history in two hundred contains a long run (4200 - 70 000 pairs) of operations that cancel out, taking whatever the container counts over its lifetime past 4096 and 65 536.",
 "C07": " TreeBidiMap.GetKey is counted too, with value tables as large as the key table.",
 "C09": " Scale runs (33 000-70 000 keys in insertion order through removal, Clear and re-use). The containers' own iterators are walked in both directions against Keys()/Values(). One history in two hundred contains a long run (4200 - 70 000 pairs) of operations that cancel out, taking whatever the container counts over its lifetime past 4096 and 65 536. One set history in six starts from values passed to the constructor (up to 130).",
 "C10": " Scale runs (33 000-70 000 pairs, Get/GetKey by arithmetic, through removal, Clear and re-use). One history in two hundred contains a long run (4200 - 70 000 pairs) of operations that cancel out, taking whatever the container counts over its lifetime past 4096 and 65 536.",
 "C11": " Value shapes include containers as values of containers (recursive ToJSON); the key pools end in pairs that collide under common 32-bit hashes. The histories contain read-only and enumerable calls (what a read leaves behind must not outlive a restart); the reloaded container's iterators are walked both ways and Each is judged against them. Key-value kinds over uint64, uint, uint8, int8 and int64 keys at the ends of their ranges. Reloaded values are compared with the Go values encoding/json reads from the document (reflect.DeepEqual, dynamic types included).",
 "C12": " Two further fault kinds: F15 permuted elements/members and F16 a second member whose name is another spelling of a present key; one large run in three produces documents beyond 64 KiB. F17 foreign writer: documents written under another order (several distinct keys of the document are one key for the loading container's comparator) and, in a probe of its own, freely spelled member names for a key type that implements encoding.TextUnmarshaler. The histories contain read-only and enumerable calls, one load in three is directly preceded by one; after every load the iterators are walked both ways and Each/Any/All/Find are judged against them. F18 null elements, also as the second half of reject-then-accept pairs (a document with one wrongly typed element after good ones directly followed by an accepted one with nulls or partial structs, half the time right after a Clear).",
 "C13": " Algebra calls with a TreeSet of another comparator function are interleaved (result unjudged, operands and later same-comparator algebra judged); scale runs with operands of 33 000-70 000 members. Every algebra call is made twice: the second result is left alone while the first result and both operands are mutated (also through Clear, a load that fails and a load that succeeds), must still hold what the call returned, and is then emptied. One run in 25 has operands two orders of magnitude apart in size.",
 "C14": " Float elements (both zeros, infinities, NaN keys for the tree kinds); a result must serialise like a fresh container holding the same elements. One run in 30 has a receiver of 70-600 elements; index-threshold predicates make whole blocks of positions match.",
 "C15": " Scale runs: Clear of 33 000-70 000 elements compared with a fresh instance. One history in two hundred contains a long run (4200 - 70 000 pairs) of operations that cancel out, taking whatever the container counts over its lifetime past 4096 and 65 536.",
 "C16": " A callee must also leave the slice it was given, and the spare capacity behind it, unchanged. Two slices returned by Values()/Keys() never share memory: writing to (or sorting) a later one leaves an earlier one as it was. The container's own Values() is handed back to Add/Insert/Push. GetSortedValues is probed over uint8, string (words differing first at byte 8, 9 or 16), int and uint64; one scribble in three touches every other held slice only. A mutation directly before the caller takes slices is not observed by the harness in between (the caller's Values() is the first read after it).",
 "C17": " The catalogue includes containers as values of containers (a call that blocks for ever is reported through the Go runtime's deadlock fatal error, confirmed from the regenerated plan) and algebra between TreeSets of different comparator functions. An extreme-configurations step: B-trees of order 2^62 .. MaxInt, and bulk loads of about 9000 elements into a heap and a priority queue under a comparator that notes overlapping calls (a library that enters the caller's comparator from several goroutines does not return normally for comparators that are not re-entrant). A HugeAdd step: one variadic Add of more than 2^24 values. An operation that blocks for ever under library code (a lock, channel or wait) is detected by a stall detector and confirmed from the regenerated plan in a fresh process.",
 "C18": " Peak-and-shrink runs (Fill to 1100-3000, one bulk removal), deep-tree runs (8192+ ascending keys; both readers run the whole read catalogue in the same order before any sequential reference call) and Contains with 33-48 arguments. A reader that blocks for ever under library code (a mutex held across a callback) is detected by the stall detector and confirmed in a fresh process.",
}

NOTE = ("Trusted: Go toolchain and encoding/json; the go/ast instrumentation of the scratch copy (selftest transparency); the reference models and "
        "oracles in /verif/worker as readings of the statement. Bounds: element tables of 4-64 (thorough up to 512; C07 up to 4096) keys, histories of "
        "10-400 (thorough up to 3000) operations, plus large-size runs (128-1024 keys, bulk prefill to 2200 elements, variadic lists to 140), huge runs (20 000-60 000 elements, sequence containers and sets) and scale runs (33 000-262 144 keys, closed-form expectations); element types "
        "int, string, struct, float64 (NaN, Inf, both zeros; comparator-based kinds); comparators natural, reversed, coarsened, and four whose results are not -1/0/1 or that disagree with ==; "
        "sampled, not exhaustive (DESIGN.md 10.2, 10.5).")

def main():
    claimed = sorted(CHECKS)
    checks = []
    for pid in claimed:
        cat, tech, text, ref = CHECKS[pid]
        text += EXTRA.get(pid, "")
        checks.append({
            "property_id": pid,
            "quick_cmd": f"bin/godsim check {pid} --tier quick",
            "thorough_cmd": f"bin/godsim check {pid} --tier thorough",
            "evidence_file": f"evidence/{pid}.json",
            "replay_cmd_template": "bin/godsim replay {path}",
            "engine": "godsim",
            "level_claimed": {"category": cat, "text": text, "design_ref": "DESIGN.md section " + ref},
            "level_note": NOTE,
            "technique": "deterministic simulation: " + tech,
        })
    all_ids = [json.loads(l)["id"] for l in open(os.path.join(HERE, "properties.jsonl"))]
    na = [{"property_id": p, "reason": "check under construction in this session (not yet registered); the property is a target of the technique, see DESIGN.md section 4"}
          for p in all_ids if p not in CHECKS]
    man = {
        "version": 1,
        "setup_cmd": "./setup.sh",
        "hooks": {
            "guard": "none: no hook is committed to /repo; all instrumentation is applied by go/ast to a scratch copy of /repo's working tree at check time",
            "enable": "bin/godsim check <id> copies /repo's working tree to a scratch directory, inserts simrt.Yield sites and the map-order seam there, and builds the worker against that copy (-race for C18)",
            "baseline_off_cmd": "cd /repo && GOFLAGS=-mod=mod go test -vet=off -count=1 ./...",
            "source_commits": [],
            "add_only": True,
        },
        "engines": [{"name": "godsim", "path": "bin/godsim", "serves_properties": claimed,
                     "kind_free_text": "deterministic simulation with fault injection: go/ast instrumenter + seeded scheduler + reference models + snapshot-store fault injector + ddmin minimiser + fresh-process replay"}],
        "checks": checks,
        "notes": "Exit 0 held / 1 VIOLATION / 2 infrastructure. VERIF_SEED, VERIF_TIER, VERIF_BUDGET_S (search seconds), VERIF_WORKERS, VERIF_REPO, VERIF_SCRATCH are honoured. fix: commits in /repo repair genuine defects found by the checks (known_findings.json).",
        "not_applicable": na,
    }
    json.dump(man, open(os.path.join(HERE, "MANIFEST.json"), "w"), indent=1)
    print("claimed", claimed)

if __name__ == "__main__":
    main()
