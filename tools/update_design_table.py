#!/usr/bin/env python3
"""Replaces the seeded-change table of DESIGN.md section 10.4 (from the header row to the summary line) with the
current output of tools/seeded_table.py."""
import os, re, subprocess, sys
ROOT = os.path.dirname(os.path.dirname(os.path.abspath(__file__)))
table = subprocess.run([sys.executable, os.path.join(ROOT, "tools", "seeded_table.py")], capture_output=True, text=True, check=True).stdout.rstrip("\n")
p = os.path.join(ROOT, "DESIGN.md")
s = open(p).read()
i = s.index("| id | wave | change (see seeded/<id>/notes.md)")
m = re.search(r"^\d+ changes; .*$", s[i:], re.M)
j = i + m.end()
s = s[:i] + table + s[j:]
open(p, "w").write(s)
print("table replaced:", table.count("\n") - 2, "rows")
