#!/usr/bin/env python3
"""Adds the wave-4 annotations (what a change needs in order to manifest, which strengthening caught it, or the
scope judgement) to seeded/C??-w4?/meta.json. Idempotent; the detection results themselves are written by
tools/seeded.py."""
import json, os

ROOT = os.path.dirname(os.path.dirname(os.path.abspath(__file__)))
S = "strengthening_that_caught_it"
J = "judgement"
A = {
 "C01-w4A": ("redblacktree delete case 'both nephews black' tests the left nephew twice: a removal whose sibling has a red right child only", {}),
 "C01-w4B": ("linkedhashmap FromJSON fast path for documents of fewer than two members forgets Clear: a non-empty map loaded with {} or a one-member document", {}),
 "C01-w4C": ("redblacktree.New compares named float key types with < and > (NaN handling lost): a named float64 key type and a NaN key", {S: "typed probe of the default constructors (float32, named float64 with NaN, int8, uint16, named string) at the end of every run built with New"}),
 "C02-w4A": ("treebidimap Remove of an absent key evicts the pair holding the zero value: the empty string as a value and a Remove of an absent key", {}),
 "C02-w4B": ("avltree iterator shared settle() parks a reverse walk that ran off the front at the end: Prev off the front, then Next", {}),
 "C02-w4C": ("redblacktree Keys() walks with a fixed 32-slot explicit stack (index masked): a left spine deeper than 32, i.e. 196 606 keys inserted in descending order", {S: "scale runs (world_scale.go): 200 000 - 262 144 keys in ascending or descending order judged by closed-form expectations (Keys, Values, both iteration directions, Floor/Ceiling, Min/Max)"}),
 "C03-w4A": ("singlylinkedlist Get resumes from a cached cursor, off by one when Insert lands exactly on the cursor", {}),
 "C03-w4B": ("doublylinkedlist Sort clears the list before sorting the copy: only a comparator that reads the list it is sorting, or one that panics, can tell", {J: "state observed from inside the callback of a mutating operation (or after the caller's own comparator panicked) is not fixed by any property: C03 speaks about the sequence after each operation; every legal implementation choice (in-place swaps, sorting a copy) shows a different intermediate state"}),
 "C03-w4C": ("singlylinkedlist Sort returns early when the sorted copy is slices.Equal to the current values (== on elements): comparator-equal but distinguishable elements out of order", {}),
 "C04-w4A": ("redblacktree Remove 'last node' shortcut taken before the lookup: Remove of an absent element from a one-element set", {}),
 "C04-w4B": ("hashset Intersection returns the receiver itself when receiver and argument are the same object", {}),
 "C04-w4C": ("treeset.New picks its comparator by a type switch that named float types fall through to a plain compare: a named float64 element type and NaN", {S: "typed probe of the default constructors"}),
 "C05-w4A": ("circularbuffer Clear mistakes 'full' for 'nothing queued' in rings of capacity >= 1024: Clear of an exactly full large ring", {S: "rings of capacity 1024-4096 filled to about their capacity in one step (1 circular-buffer run in 10)"}),
 "C05-w4B": ("singlylinkedlist FromJSON returns early on an empty document without Clear (behind LinkedListStack/Queue): loading [] onto a non-empty container", {}),
 "C05-w4C": ("circularbuffer Enqueue skips the store when the slot already == the value: -0.0 over a stale +0.0", {S: "sequence models compare float elements by their exact rendering, not by == (the float tables hold both zeros)"}),
 "C06-w4A": ("binaryheap iterator Next guard index <= Size(): a second Next after the end, then Prev", {}),
 "C06-w4B": ("binaryheap UnmarshalJSON delegates to the list without heapify: json.Unmarshal / UnmarshalJSON (not FromJSON) of an unordered array", {S: "the C06 world loads through all three entry points (FromJSON, UnmarshalJSON, json.Unmarshal)"}),
 "C06-w4C": ("binaryheap bubbleDown skips the comparator when both children are == : comparator-distinct elements that are == (-0/+0 under the sign-aware order)", {}),
 "C07-w4A": ("avltree removeMin reports 'no height change' when the minimum has a right child", {}),
 "C07-w4B": ("treebidimap Put chains the two evictions with else-if: a Put colliding on key and value leaks the old value into the value index", {S: "counted GetKey (the value index is a tree over the same n pairs) and value tables as large as the key table in the C07 world"}),
 "C07-w4C": ("redblacktree Remove of a two-children node re-enters Remove for the predecessor (a second full descent)", {}),
 "C08-w4A": ("doublylinkedlist Insert in the middle leaves a stale back pointer: reverse iteration after an Insert", {}),
 "C08-w4B": ("linkedliststack NextTo fast path returns without moving the cursor when standing on the last element", {J: "not observable through the documented interface: the iterator is forward-only, every later Next/NextTo/First/Begin behaves identically from position n-1 and n, and Index()/Value() may be read only after a successful move"}),
 "C08-w4C": ("binaryheap Values() sorts a copy with slices.SortFunc (unstable): iterator/Values order of comparator-equal elements", {}),
 "C09-w4A": ("linkedhashset FromJSON 'nothing to do' shortcut compares membership and count only: a document with the current members in another order", {}),
 "C09-w4B": ("linkedhashmap ToJSON returns a slice aliasing a pooled buffer: a document held across the next ToJSON of any linked hash map", {}),
 "C09-w4C": ("linkedhashset Add filters new items in place into the caller's spread slice: a batch with a present item followed by a new one, and the slice re-used", {S: "C16 now also requires that a callee leaves the slice it was given (and its spare capacity) as it was"}),
 "C10-w4A": ("hashmap Clear rebinds its receiver for tables above 32 768 entries (no-op): HashBidiMap.Clear with more than 32 768 pairs", {S: "scale runs: 33 000 - 70 000 pairs through growth, removal of half, Clear and re-use"}),
 "C10-w4B": ("treebidimap Map fills its result without Put's displacement: a mapping that makes two pairs collide", {}),
 "C10-w4C": ("utils.TimeComparator compares UnixNano(): time.Time keys 2^64 ns apart compare equal", {J: "no listed property is about utils.TimeComparator; the changed function is still a strict weak order (coarser), and the containers behave correctly with respect to it, which is all C01/C02/C10 quantify over"}),
 "C11-w4A": ("circularbuffer FromJSON bulk restore: documents longer than the capacity", {}),
 "C11-w4B": ("arraylist: the []-instead-of-null guard moved from ToJSON to New, so Select/Map results (built without New) serialise as null", {S: "C14 compares the serialisation of every Select/Map result with that of a fresh container holding the same elements"}),
 "C11-w4C": ("linkedhashmap FromJSON de-duplicates member names by their CRC-32: two distinct keys whose quoted names collide", {S: "pairs colliding under CRC-32 (IEEE, Castagnoli), FNV-1/1a (raw and quoted text) and the base-31 polynomial hash in the rotating pools of special strings and ints"}),
 "C12-w4A": ("treeset FromJSON 'unchanged members' fast path", {}),
 "C12-w4B": ("singlylinkedlist FromJSON decodes documents of 64 KiB and more with a json.Decoder (trailing data accepted)", {S: "one large-container run in three of the C12 world now fills up to 16 000 elements (documents well beyond 64 KiB) before the faulted loads"}),
 "C12-w4C": ("linkedhashmap FromJSON de-duplicates members by spelling: '1' and '01' are one int key", {S: "fault F16-respelled-key (a second member whose name is another spelling of a present key) and F15-permute"}),
 "C13-w4A": ("treeset caches the comparator identity and fills the argument's from the receiver: a fresh set first used as the argument of a set with another comparator", {S: "algebra calls with a TreeSet of another comparator function interleaved in the C13 histories (result unjudged, operands and later same-comparator algebra judged)"}),
 "C13-w4B": ("hashset Intersection returns an empty result before its table is allocated: Add to the empty result", {}),
 "C13-w4C": ("treeset Intersection looks members up in parallel from 32 768 elements on and captures the loop variable", {S: "scale runs of the C13 world: operands of 33 000 - 70 000 members with arithmetic expectations"}),
 "C14-w4A": ("arraylist Select shrinks the receiver's backing array (hidden write in a read-only operation)", {}),
 "C14-w4B": ("doublylinkedlist Select links result nodes without back pointers: reverse iteration of a result", {}),
 "C14-w4C": ("arraylist Map stores only when mapped != value: a mapping from +0.0 to -0.0", {S: "float element type (both zeros, infinities; NaN keys for the tree kinds) in the C14 world, element identity by exact rendering"}),
 "C15-w4A": ("singlylinkedlist Prepend leaves a stale last pointer on an empty list", {}),
 "C15-w4B": ("hashbidimap FromJSON fills the two directions without evicting: a document with two keys sharing a value", {}),
 "C15-w4C": ("treebidimap Remove identifies its inverse entry with == instead of the value comparator", {}),
 "C16-w4A": ("arraylist.New adopts the argument slice when it has head-room", {}),
 "C16-w4B": ("circularbuffer Values aliases the ring when the head part is empty", {}),
 "C16-w4C": ("GetSortedValues two-element fast path with min/max loses an element next to a NaN", {}),
 "C17-w4A": ("circularbuffer FromJSON bulk restore leaves end == capacity: the next Enqueue panics", {}),
 "C17-w4B": ("treeset algebra between sets of different comparators logs to standard error", {S: "algebra with a TreeSet of another comparator function in the hostile catalogue"}),
 "C17-w4C": ("linkedhashmap ToJSON takes a package-level mutex: a linked hash map whose values are linked hash maps deadlocks", {S: "containers as values of containers (nested.go): the NestedContainers operation of the hostile world and the 'nested' value shape of the C11 value-types world; the Go runtime's deadlock report is a fatal error, confirmed from the regenerated plan in a fresh process"}),
 "C18-w4A": ("hashset Values() compacts a sparse table in place: a set that once held >= 1024 members and shrank to an eighth", {S: "peak-and-shrink runs of the C18 world (Fill to 1100-3000, then one bulk removal down to a few)"}),
 "C18-w4B": ("doublylinkedlist Contains with more than 32 arguments on more than 32 elements uses a per-list scratch table", {S: "long argument lists (33-48) in the read catalogue's Contains"}),
 "C18-w4C": ("btree String() grows a package-level indentation table at depth >= 13 (8191 ascending keys at order 3)", {S: "deep-tree runs of the C18 world: 8192+ ascending keys (B-tree orders 3 and 4), every reader runs the whole read catalogue in the same order before any sequential reference call"}),
}

for sid, (needs, extra) in A.items():
    p = os.path.join(ROOT, "seeded", sid, "meta.json")
    m = json.load(open(p))
    m["wave"] = 4
    m["needs_to_manifest"] = needs
    m.pop(S, None)
    m.pop(J, None)
    m.update(extra)
    owner = m["godsim"].get(m["property"], {})
    m["detected_by_owner"] = owner.get("exit") == 1
    json.dump(m, open(p, "w"), indent=1)
    open(p, "a").write("\n")
print(len(A), "annotated")
