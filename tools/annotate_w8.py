#!/usr/bin/env python3
"""Adds the wave-8 annotations to seeded/C??-w8?/meta.json (see annotate_w4.py). Idempotent."""
import json, os

ROOT = os.path.dirname(os.path.dirname(os.path.abspath(__file__)))
S = "strengthening_that_caught_it"
J = "judgement"
A = {
 "C01-w8A": ("avltree Iterator() hands out one iterator object per tree (Keys/Values/ToJSON use it too): an iterator in mid-walk and any enumerating call share a cursor", {}),
 "C02-w8A": ("btree iterator steps note (node, index) in the tree and the next step of any iterator in that node reuses the index", {}),
 "C02-w8B": ("avltree Ceiling exits early for keys >= the maximum (Ceiling of the maximum itself reports not found)", {}),
 "C02-w8C": ("btree iterator keeps its in-node index in a one-byte field: nodes of more than 256 entries (order >= 258)", {S: "B-tree orders 300 and 1024 (with the bulk prefills a single node holds several hundred entries)"}),
 "C03-w8A": ("arraylist Select that keeps every element returns a list viewing the operand's array", {}),
 "C03-w8B": ("doublylinkedlist Contains scans lists of >= 8 from both ends for size/2 steps: the middle of an odd-length list is never compared", {}),
 "C03-w8C": ("arraylist Insert in-place fast path guarded by n <= len instead of n <= len-index", {}),
 "C04-w8A": ("hashset Difference with an empty argument hands the result the receiver's own map", {}),
 "C04-w8B": ("redblacktree Remove: the new-root-is-black fix-up tests the parent before the node is replaced (set of two, root removed, Add)", {}),
 "C04-w8C": ("hashset counts deletions and rebuilds its table after 4096 of them in the middle of a variadic Remove: the remaining arguments are deleted from the old table only", {S: "long runs of operations that cancel out (Churn: 4200 - 70 000 pairs of Add/Remove of three strangers, Put/Remove, push/pop ...; Size() is asked after every pair, the pairs that follow would repair the damage) take a container's lifetime counters past 4096 and 65 536"}),
 "C05-w8A": ("arraystack Values() memoises the reversed listing and the call that builds the memo returns it (the caller's edits show in the next Values())", {}),
 "C06-w8A": ("binaryheap iterator Value keeps one ordered level per heap, shared by all iterators and Values(): two iterators on different levels", {}),
 "C06-w8B": ("binaryheap iterator Value one-pass shortcut for the last index of a level picks the wrong one of several tied maxima on levels of >= 3", {}),
 "C06-w8C": ("binaryheap Values() memoised against a uint16 modification counter: exactly 65 536 mutating calls between two Values()", {S: "long runs of operations that cancel out (Churn), among them exactly 32 768 and 65 536 push/pop pairs"}),
 "C07-w8C": ("btree search scans nodes of fewer than 64 entries linearly: orders 20..64 exceed the comparator bound", {}),
 "C08-w8A": ("btree iterator steps note (node, index) in the tree and the next step of any iterator in that node reuses the index", {}),
 "C09-w8A": ("linkedhashmap: an exhausted iterator registers itself and the next Iterator() hands the same object out again", {}),
 "C09-w8B": ("doublylinkedlist IndexOf searches lists of >= 8 from both ends with i < j: the middle of an odd-length list is never examined (Remove of that key leaves it in the ordering)", {}),
 "C09-w8C": ("linkedhashmap ToJSON writes integer-kind member names itself and formats unsigned keys through int64 (uint64 keys >= 2^63 come out negative)", {S: "probe of the key-value kinds over uint64, uint, uint8, int8 and int64 keys at the ends of their ranges (ToJSON against json.Marshal of the same pairs, reload)"}),
 "C10-w8A": ("treebidimap Select that keeps every pair returns a struct copy sharing all nodes of both trees", {}),
 "C10-w8B": ("redblacktree two-children Remove lifts the predecessor's red left child without updating its Parent", {}),
 "C10-w8C": ("hashbidimap rebuilds both tables after 4096 displaced pairs, in Put between the two halves of the displacement", {S: "long runs of operations that cancel out (Churn), here one present key rewritten thousands of times"}),
 "C11-w8A": ("linkedhashmap FromJSON slices member names out of the caller's bytes and overwrites the separating commas (the document cannot be loaded a second time)", {}),
 "C11-w8C": ("linkedhashmap FromJSON skips member values with a hand-written token loop that does not consume the close of an empty [] or {} (later members are dropped)", {}),
 "C12-w8A": ("linkedhashmap FromJSON compacts the document into the caller's own byte slice (pretty-printed input is rewritten in place)", {J: "no listed property speaks about the caller's bytes after the call: every load behaves as C12 demands on the bytes it is given at the time of the call (the second load of the rewritten slice is a load of malformed bytes, rejected atomically). C11 does notice loaders that destroy a document produced by ToJSON, because its restart loads that document twice (C11-w8A); a whitespace-only trigger never occurs there"}),
 "C12-w8B": ("binaryheap FromJSON skips heapify when the document 'is in heap order', never comparing the root with its left child", {}),
 "C12-w8C": ("hashmap FromJSON decodes straight into the live map when it is empty (a rejected document leaves its well-typed members)", {}),
 "C13-w8A": ("hashset allocates its map lazily; algebra writes the items field of a never-used empty operand (a data race between two read-only algebra calls)", {}),
 "C13-w8B": ("treeset Difference picks its strategy by n > 2m / n < 2m with no default: a receiver exactly twice the size of the argument gives an empty result", {}),
 "C13-w8C": ("treeset Difference merge walk keeps the member equal to the argument's maximum - compiled only into builds without the race detector", {}),
 "C14-w8A": ("singlylinkedlist Map copies the list header: the result's last pointer is the receiver's last node", {}),
 "C14-w8B": ("treebidimap Map consults the inverse tree only when the mapped key is new", {}),
 "C14-w8C": ("treeset Map passes the result's size as the index", {}),
 "C15-w8A": ("treeset Difference with an empty argument returns a struct copy sharing the tree", {}),
 "C15-w8B": ("btree Put counts an overwrite of a key sitting in an internal node as an insertion", {}),
 "C16-w8A": ("redblacktree Keys() carves its snapshots out of a larger per-tree block without capping their capacity: an append to an earlier snapshot overwrites a later one", {S: "one ScribbleSnap in three writes to every other held slice only (including appends within spare capacity) and the untouched ones are compared at once"}),
 "C16-w8B": ("GetSortedValues counting-sort fast path for []uint8 never writes out the bucket of 255", {S: "GetSortedValues is probed over uint8 (with 0 and 255), string (words that first differ at byte 8, 9 or 16), int and uint64 at the ends of their ranges, besides the named and narrower types"}),
 "C16-w8C": ("GetSortedValues fast path for []string compares 8-byte prefixes and then skips the byte at index 8", {S: "GetSortedValues is probed over uint8 (with 0 and 255), string (words that first differ at byte 8, 9 or 16), int and uint64 at the ends of their ranges, besides the named and narrower types"}),
 "C17-w8A": ("singlylinkedlist enumerable functions share one iterator per list: an enumerable call inside a callback moves the outer cursor (hangs when it lands before the outer position)", {}),
 "C17-w8B": ("btree rebalance borrow-from-right at an internal level loses the Parent of the moved child (height >= 3; a later backward walk never ends)", {}),
 "C17-w8C": ("circularbuffer FromJSON reports dropped elements of an over-long document on standard error", {}),
 "C18-w8A": ("arraylist Select installs the leading run of selected elements as a capacity-capped view of the operand's array", {}),
 "C18-w8C": ("treeset Each/Any/All/Find borrow a per-set iterator by compare-and-swap but release the busy flag unconditionally (three overlapping read-only calls)", {}),
}

missing = []
for sid, (needs, extra) in A.items():
    p = os.path.join(ROOT, "seeded", sid, "meta.json")
    if not os.path.exists(p):
        missing.append(sid)
        continue
    m = json.load(open(p))
    m["wave"] = 8
    m["author"] = "independent sub-agent given only the property text, a scratch worktree and the one-line summaries of earlier rounds ideas to avoid"
    m["needs_to_manifest"] = needs
    m.pop(S, None)
    m.pop(J, None)
    m.pop("not_reached", None)
    m.update(extra)
    owner = m["godsim"].get(m["property"], {})
    m["detected_by_owner"] = owner.get("exit") == 1
    if m.get("first_result_on_baseline_commit") == "detected":
        m.pop(S, None)
    json.dump(m, open(p, "w"), indent=1)
    open(p, "a").write("\n")
print(len(A) - len(missing), "annotated; missing:", missing)
