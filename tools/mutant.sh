#!/bin/sh
# usage: tools/mutant.sh <patch-or-sed-script.sh> <prop>...   — applies a change to a scratch copy of /repo and runs checks against it
set -e
M=$(mktemp -d /tmp/mutant-XXXXXX)
trap 'rm -rf "$M"' EXIT
rsync -a --exclude .git /repo/ "$M/repo/"
case "$1" in
  *.diff|*.patch) (cd "$M/repo" && patch -p1 -s < "$1") ;;
  *) (cd "$M/repo" && sh "$1") ;;
esac
shift
(cd "$M/repo" && GOFLAGS=-mod=mod GOPROXY=off go build ./... ) || { echo "MUTANT DOES NOT COMPILE"; exit 3; }
if [ -n "$MUTANT_TESTS" ]; then (cd "$M/repo" && GOFLAGS=-mod=mod GOPROXY=off go test -vet=off -count=1 -timeout 60s ./... 2>&1 | grep -v "^ok\|no test files" || true); fi
for p in "$@"; do
  VERIF_REPO="$M/repo" /verif/bin/godsim check "$p" --tier quick 2>&1 | cut -c1-600 | tail -4 || true
done
